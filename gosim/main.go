// gosim: source-to-source translation of Go concurrency primitives into calls
// to the simulated runtime verif/rt.
//
// usage: gosim -rt verif/rt -out DIR -pkg importpath=srcdir [-pkg ...]
// Every package is type-checked from srcdir (cwd must allow `go list` to resolve
// its imports), rewritten and written to DIR/<importpath>/.
package main

import (
	"bytes"
	"encoding/json"
	"flag"
	"fmt"
	"go/ast"
	"go/build"
	"go/format"
	"go/importer"
	"go/parser"
	"go/token"
	"go/types"
	"io"
	"os"
	"os/exec"
	"path/filepath"
	"reflect"
	"sort"
	"strings"
)

type pkgFlag []string

func (p *pkgFlag) String() string     { return strings.Join(*p, ",") }
func (p *pkgFlag) Set(s string) error { *p = append(*p, s); return nil }

var (
	rtPath  = flag.String("rt", "verif/rt", "import path of the simulated runtime")
	outDir  = flag.String("out", "", "output root")
	listDir = flag.String("C", ".", "directory in which `go list` resolves imports")
	pkgs    pkgFlag
)

var shims = map[string]string{
	"sync":        "/vsync",
	"time":        "/vtime",
	"context":     "/vcontext",
	"sync/atomic": "/vatomic",
}

func fatal(f string, a ...any) {
	fmt.Fprintf(os.Stderr, "gosim: UNTRANSLATABLE: "+f+"\n", a...)
	os.Exit(2)
}

// export data lookup through `go list -export`
func exportLookup(dir string, patterns []string) func(string) (io.ReadCloser, error) {
	args := append([]string{"list", "-export", "-deps", "-json=ImportPath,Export"}, patterns...)
	cmd := exec.Command("go", args...)
	cmd.Dir = dir
	cmd.Stderr = os.Stderr
	out, err := cmd.Output()
	if err != nil {
		fatal("go list: %v", err)
	}
	m := map[string]string{}
	dec := json.NewDecoder(bytes.NewReader(out))
	for dec.More() {
		var p struct{ ImportPath, Export string }
		if err := dec.Decode(&p); err != nil {
			fatal("go list json: %v", err)
		}
		m[p.ImportPath] = p.Export
	}
	return func(path string) (io.ReadCloser, error) {
		f, ok := m[path]
		if !ok || f == "" {
			return nil, fmt.Errorf("no export data for %s", path)
		}
		return os.Open(f)
	}
}

type counts map[string]int

type tr struct {
	importPath string
	fset       *token.FileSet
	info       *types.Info
	n          int
	cnt        counts
	needRT     bool
	// pre-pass decisions keyed by original node
	chanRange map[*ast.RangeStmt]bool
	chanCall  map[*ast.CallExpr]string // "len","cap","close","make"
	commaOk   map[*ast.UnaryExpr]bool
	// generated comm calls, for select pattern matching
	gen     map[*ast.CallExpr]string // "send","recv","recv2"
	wrapped map[*ast.CallExpr]bool
	// blocks generated for range/select whose label must move inside
	labelTarget map[ast.Stmt]*ast.Stmt
}

func (t *tr) fresh(p string) *ast.Ident { t.n++; return ast.NewIdent(fmt.Sprintf("__%s%d", p, t.n)) }

func (t *tr) rtSel(name string) ast.Expr {
	t.needRT = true
	return &ast.SelectorExpr{X: ast.NewIdent("__rt"), Sel: ast.NewIdent(name)}
}

func (t *tr) call(name string, args ...ast.Expr) *ast.CallExpr {
	return &ast.CallExpr{Fun: t.rtSel(name), Args: args}
}

func isBuiltin(info *types.Info, e ast.Expr, name string) bool {
	id, ok := e.(*ast.Ident)
	if !ok || id.Name != name {
		return false
	}
	_, ok = info.Uses[id].(*types.Builtin)
	return ok
}

func isChan(info *types.Info, e ast.Expr) bool {
	tv, ok := info.Types[e]
	if !ok || tv.Type == nil {
		return false
	}
	_, ok = tv.Type.Underlying().(*types.Chan)
	return ok
}

// sharedMutable finds the variables that can be written by one goroutine while
// another one uses them without any channel operation in between: variables
// assigned (or address-taken) inside a function literal that does not declare
// them, and package-level variables assigned inside any function. Every
// statement that mentions such a variable gets a scheduling point in front of
// it, so that a data race on it becomes an explored interleaving instead of
// being hidden by the atomicity of the code between two channel operations.
func sharedMutable(info *types.Info, files []*ast.File) map[types.Object]bool {
	shared := map[types.Object]bool{}
	for _, f := range files {
		var lits []*ast.FuncLit
		var inFunc int
		var visit func(n ast.Node) bool
		mark := func(e ast.Expr) {
			for {
				switch v := e.(type) {
				case *ast.ParenExpr:
					e = v.X
					continue
				case *ast.IndexExpr: // a[i] = ..: the array/slice variable is written through
					e = v.X
					continue
				}
				break
			}
			id, ok := e.(*ast.Ident)
			if !ok {
				return
			}
			obj, ok := info.Uses[id].(*types.Var)
			if !ok || obj.IsField() {
				return
			}
			if obj.Parent() == obj.Pkg().Scope() {
				if inFunc > 0 {
					shared[obj] = true
				}
				return
			}
			if n := len(lits); n > 0 {
				l := lits[n-1]
				if obj.Pos() < l.Pos() || obj.Pos() > l.End() {
					shared[obj] = true
				}
			}
		}
		visit = func(n ast.Node) bool {
			switch v := n.(type) {
			case *ast.FuncDecl:
				if v.Body != nil {
					inFunc++
					ast.Inspect(v.Body, visit)
					inFunc--
				}
				return false
			case *ast.FuncLit:
				lits = append(lits, v)
				inFunc++
				ast.Inspect(v.Body, visit)
				inFunc--
				lits = lits[:len(lits)-1]
				return false
			case *ast.AssignStmt:
				if v.Tok != token.DEFINE {
					for _, l := range v.Lhs {
						mark(l)
					}
				}
			case *ast.IncDecStmt:
				mark(v.X)
			case *ast.RangeStmt:
				if v.Tok == token.ASSIGN {
					if v.Key != nil {
						mark(v.Key)
					}
					if v.Value != nil {
						mark(v.Value)
					}
				}
			case *ast.UnaryExpr:
				if v.Op == token.AND {
					if _, isLit := v.X.(*ast.CompositeLit); !isLit {
						mark(v.X)
					}
				}
			}
			return true
		}
		ast.Inspect(f, visit)
	}
	return shared
}

// mentions reports whether the statement refers to a shared-mutable variable
// outside nested function literals (those get their own scheduling points).
func (t *tr) mentions(s ast.Stmt, shared map[types.Object]bool) bool {
	found := false
	ast.Inspect(s, func(n ast.Node) bool {
		switch v := n.(type) {
		case *ast.FuncLit:
			return false
		case *ast.BlockStmt, *ast.CaseClause, *ast.CommClause:
			if n != ast.Node(s) {
				return false // inner statement lists are handled on their own
			}
		case *ast.Ident:
			if obj, ok := t.info.Uses[v]; ok && shared[obj] {
				found = true
			}
		}
		return !found
	})
	return found
}

func (t *tr) sharedVars(f *ast.File, shared map[types.Object]bool) {
	if len(shared) == 0 {
		return
	}
	yield := func() ast.Stmt { return &ast.ExprStmt{X: t.call("SharedOp")} }
	fix := func(list []ast.Stmt) []ast.Stmt {
		var out []ast.Stmt
		for _, s := range list {
			switch s.(type) {
			case *ast.CommClause, *ast.CaseClause, *ast.DeclStmt:
				out = append(out, s)
				continue
			}
			if t.mentions(s, shared) {
				t.cnt["sharedvar-yield"]++
				out = append(out, yield())
			}
			out = append(out, s)
		}
		return out
	}
	depth := 0
	var visit func(n ast.Node) bool
	visit = func(n ast.Node) bool {
		switch v := n.(type) {
		case *ast.FuncDecl:
			if v.Body != nil {
				depth++
				ast.Inspect(v.Body, visit)
				depth--
			}
			return false
		case *ast.FuncLit:
			depth++
			ast.Inspect(v.Body, visit)
			depth--
			return false
		case *ast.BlockStmt:
			if depth > 0 {
				v.List = fix(v.List)
			}
		case *ast.CaseClause:
			if depth > 0 {
				v.Body = fix(v.Body)
			}
		case *ast.CommClause:
			if depth > 0 {
				v.Body = fix(v.Body)
			}
		}
		return true
	}
	ast.Inspect(f, visit)
}

func (t *tr) prepass(f *ast.File) {
	ast.Inspect(f, func(n ast.Node) bool {
		switch v := n.(type) {
		case *ast.RangeStmt:
			if isChan(t.info, v.X) {
				t.chanRange[v] = true
			}
		case *ast.CallExpr:
			for _, b := range []string{"len", "cap"} {
				if isBuiltin(t.info, v.Fun, b) && len(v.Args) == 1 && isChan(t.info, v.Args[0]) {
					t.chanCall[v] = b
				}
			}
			if isBuiltin(t.info, v.Fun, "close") {
				t.chanCall[v] = "close"
			}
			if isBuiltin(t.info, v.Fun, "make") && len(v.Args) >= 1 && isChan(t.info, v.Args[0]) {
				if _, ok := v.Args[0].(*ast.ChanType); !ok {
					fatal("%s: make of a named channel type", t.fset.Position(v.Pos()))
				}
				t.chanCall[v] = "make"
			}
		case *ast.AssignStmt:
			if len(v.Lhs) == 2 && len(v.Rhs) == 1 {
				if u, ok := v.Rhs[0].(*ast.UnaryExpr); ok && u.Op == token.ARROW {
					t.commaOk[u] = true
				}
			}
		case *ast.ValueSpec:
			if len(v.Names) == 2 && len(v.Values) == 1 {
				if u, ok := v.Values[0].(*ast.UnaryExpr); ok && u.Op == token.ARROW {
					t.commaOk[u] = true
				}
			}
		}
		return true
	})
}

var (
	exprT = reflect.TypeOf((*ast.Expr)(nil)).Elem()
	stmtT = reflect.TypeOf((*ast.Stmt)(nil)).Elem()
	nodeT = reflect.TypeOf((*ast.Node)(nil)).Elem()
)

// walk rewrites the tree below n post-order, in place.
func (t *tr) walk(n ast.Node) {
	if n == nil || reflect.ValueOf(n).IsNil() {
		return
	}
	v := reflect.ValueOf(n).Elem()
	if v.Kind() != reflect.Struct {
		return
	}
	for i := 0; i < v.NumField(); i++ {
		f := v.Field(i)
		if !f.CanSet() {
			continue
		}
		switch f.Kind() {
		case reflect.Interface:
			if f.IsNil() {
				continue
			}
			if c, ok := f.Interface().(ast.Node); ok {
				t.walk(c)
				if f.Type() == exprT {
					f.Set(reflect.ValueOf(t.expr(c.(ast.Expr))))
				} else if f.Type() == stmtT {
					f.Set(reflect.ValueOf(t.stmt(c.(ast.Stmt))))
				}
			}
		case reflect.Ptr:
			if f.IsNil() {
				continue
			}
			if c, ok := f.Interface().(ast.Node); ok {
				t.walk(c)
				if ce, isCall := c.(*ast.CallExpr); isCall {
					if ne, ok := t.expr(ce).(*ast.CallExpr); ok {
						f.Set(reflect.ValueOf(ne))
					} else {
						fatal("%s: defer/go of a non-call after rewriting", t.fset.Position(ce.Pos()))
					}
				}
			}
		case reflect.Slice:
			for j := 0; j < f.Len(); j++ {
				e := f.Index(j)
				if e.Kind() == reflect.Interface && e.IsNil() || e.Kind() == reflect.Ptr && e.IsNil() {
					continue
				}
				c, ok := e.Interface().(ast.Node)
				if !ok {
					continue
				}
				t.walk(c)
				if e.Type() == exprT {
					e.Set(reflect.ValueOf(t.expr(c.(ast.Expr))))
				} else if e.Type() == stmtT {
					e.Set(reflect.ValueOf(t.stmt(c.(ast.Stmt))))
				}
			}
		}
	}
}

func (t *tr) chanTypeOf(elem ast.Expr) ast.Expr {
	return &ast.StarExpr{X: &ast.IndexExpr{X: t.rtSel("Chan"), Index: elem}}
}

func (t *tr) expr(e ast.Expr) ast.Expr {
	switch v := e.(type) {
	case *ast.ChanType:
		t.cnt["chantype"]++
		return t.chanTypeOf(v.Value)
	case *ast.UnaryExpr:
		if v.Op == token.ARROW {
			t.cnt["recv"]++
			name, kind := "Recv", "recv"
			if t.commaOk[v] {
				name, kind = "Recv2", "recv2"
			}
			c := t.call(name, v.X)
			t.gen[c] = kind
			return c
		}
	case *ast.CallExpr:
		if sel, ok := v.Fun.(*ast.SelectorExpr); ok {
			if fn, ok := t.info.Uses[sel.Sel].(*types.Func); ok && fn.Pkg() != nil {
				switch pkg, name := fn.Pkg().Path(), fn.Name(); {
				case pkg == "runtime" && name == "Gosched":
					t.cnt["gosched"]++
					return t.call("Gosched")
				case pkg == "runtime" && name == "Goexit":
					fatal("%s: runtime.Goexit has no counterpart on the simulated runtime", t.fset.Position(v.Pos()))
				case pkg == "reflect" && (name == "Select" || name == "ChanOf" || name == "MakeChan" || name == "Send" || name == "Recv" || name == "TrySend" || name == "TryRecv" || name == "Close"):
					// a channel operation through reflection would act on the simulated channel object as if it
					// were a Go channel: refuse instead of misexecuting
					fatal("%s: channel operation through package reflect (reflect.%s)", t.fset.Position(v.Pos()), name)
				}
			}
		}
		if isBuiltin(t.info, v.Fun, "recover") && !t.wrapped[v] {
			// the simulated runtime unwinds blocked threads with a sentinel panic that translated code must not swallow
			t.cnt["recover"]++
			t.wrapped[v] = true
			return t.call("Recover", v)
		}
		switch t.chanCall[v] {
		case "len":
			t.cnt["len"]++
			return &ast.CallExpr{Fun: &ast.SelectorExpr{X: paren(v.Args[0]), Sel: ast.NewIdent("Len")}}
		case "cap":
			t.cnt["cap"]++
			return &ast.CallExpr{Fun: &ast.SelectorExpr{X: paren(v.Args[0]), Sel: ast.NewIdent("Cap")}}
		case "close":
			t.cnt["close"]++
			return t.call("Close", v.Args[0])
		case "make":
			t.cnt["make"]++
			st := v.Args[0].(*ast.StarExpr) // already rewritten chan type
			elem := st.X.(*ast.IndexExpr).Index
			size := ast.Expr(&ast.BasicLit{Kind: token.INT, Value: "0"})
			if len(v.Args) > 1 {
				size = v.Args[1]
			}
			return &ast.CallExpr{Fun: &ast.IndexExpr{X: t.rtSel("MakeChan"), Index: elem}, Args: []ast.Expr{size}}
		}
	}
	return e
}

func paren(e ast.Expr) ast.Expr {
	switch e.(type) {
	case *ast.Ident, *ast.SelectorExpr, *ast.CallExpr, *ast.IndexExpr, *ast.ParenExpr:
		return e
	}
	return &ast.ParenExpr{X: e}
}

func define(lhs []ast.Expr, rhs ...ast.Expr) *ast.AssignStmt {
	return &ast.AssignStmt{Lhs: lhs, Tok: token.DEFINE, Rhs: rhs}
}

func (t *tr) stmt(s ast.Stmt) ast.Stmt {
	switch v := s.(type) {
	case *ast.SendStmt:
		t.cnt["send"]++
		c := t.call("Send", v.Chan, v.Value)
		t.gen[c] = "send"
		return &ast.ExprStmt{X: c}
	case *ast.GoStmt:
		t.cnt["go"]++
		return t.goStmt(v)
	case *ast.RangeStmt:
		if t.chanRange[v] {
			t.cnt["range"]++
			return t.rangeStmt(v)
		}
	case *ast.SelectStmt:
		t.cnt["select"]++
		return t.selectStmt(v)
	case *ast.LabeledStmt:
		if inner, ok := t.labelTarget[v.Stmt]; ok {
			// move the label onto the loop / switch inside the generated block
			blk := v.Stmt
			*inner = &ast.LabeledStmt{Label: v.Label, Stmt: *inner}
			return blk
		}
	}
	return s
}

func (t *tr) goStmt(g *ast.GoStmt) ast.Stmt {
	call := g.Call
	pos := t.fset.Position(g.Pos())
	site := &ast.BasicLit{Kind: token.STRING, Value: fmt.Sprintf("%q", fmt.Sprintf("%s/%s:%d", t.importPath, filepath.Base(pos.Filename), pos.Line))}
	if fl, ok := call.Fun.(*ast.FuncLit); ok && len(call.Args) == 0 {
		return &ast.ExprStmt{X: t.call("Go", site, fl)}
	}
	var pre []ast.Stmt
	fun := call.Fun
	if _, isLit := fun.(*ast.FuncLit); !isLit && !t.isDeclaredFunc(fun) {
		if id, ok := fun.(*ast.Ident); !(ok && t.isBuiltinName(id)) {
			f := t.fresh("f")
			pre = append(pre, define([]ast.Expr{f}, fun))
			fun = f
		}
	}
	var args []ast.Expr
	for _, a := range call.Args {
		x := t.fresh("a")
		pre = append(pre, define([]ast.Expr{x}, a))
		args = append(args, x)
	}
	inner := &ast.CallExpr{Fun: fun, Args: args, Ellipsis: call.Ellipsis}
	lit := &ast.FuncLit{Type: &ast.FuncType{Params: &ast.FieldList{}}, Body: &ast.BlockStmt{List: []ast.Stmt{&ast.ExprStmt{X: inner}}}}
	pre = append(pre, &ast.ExprStmt{X: t.call("Go", site, lit)})
	return &ast.BlockStmt{List: pre}
}

// isDeclaredFunc: a package-level function named directly (possibly generic and instantiated by inference, which
// a value copy `f := name` would not compile for); there is nothing to evaluate at the go statement.
func (t *tr) isDeclaredFunc(e ast.Expr) bool {
	var id *ast.Ident
	switch v := e.(type) {
	case *ast.Ident:
		id = v
	case *ast.SelectorExpr:
		if _, ok := v.X.(*ast.Ident); ok {
			id = v.Sel
		}
	}
	if id == nil {
		return false
	}
	fn, ok := t.info.Uses[id].(*types.Func)
	if !ok {
		return false
	}
	sig, _ := fn.Type().(*types.Signature)
	return sig != nil && sig.Recv() == nil
}

func (t *tr) isBuiltinName(id *ast.Ident) bool {
	_, ok := t.info.Uses[id].(*types.Builtin)
	return ok
}

func (t *tr) rangeStmt(r *ast.RangeStmt) ast.Stmt {
	ch := t.fresh("ch")
	ok := t.fresh("ok")
	recv := t.call("Recv2", ch)
	var head ast.Stmt
	key := r.Key
	if key == nil {
		key = ast.NewIdent("_")
	}
	if r.Tok == token.DEFINE {
		head = define([]ast.Expr{key, ok}, recv)
	} else {
		// x = range: assign to the existing variable, ok is fresh
		head = &ast.BlockStmt{} // placeholder, replaced below
	}
	brk := &ast.IfStmt{Cond: &ast.UnaryExpr{Op: token.NOT, X: ok}, Body: &ast.BlockStmt{List: []ast.Stmt{&ast.BranchStmt{Tok: token.BREAK}}}}
	var body []ast.Stmt
	if r.Tok == token.DEFINE {
		body = append(body, head, brk)
		if id, isId := key.(*ast.Ident); isId && id.Name != "_" {
			// keep "declared and not used" away if the body ignores the variable? Go would have rejected it; nothing to do
			_ = id
		}
	} else {
		tmp := t.fresh("v")
		body = append(body, define([]ast.Expr{tmp, ok}, recv), brk)
		if id, isId := key.(*ast.Ident); !(isId && id.Name == "_") {
			body = append(body, &ast.AssignStmt{Lhs: []ast.Expr{key}, Tok: token.ASSIGN, Rhs: []ast.Expr{tmp}})
		} else {
			body = append(body, &ast.AssignStmt{Lhs: []ast.Expr{ast.NewIdent("_")}, Tok: token.ASSIGN, Rhs: []ast.Expr{tmp}})
		}
	}
	body = append(body, r.Body.List...)
	loop := ast.Stmt(&ast.ForStmt{Body: &ast.BlockStmt{List: body}})
	blk := &ast.BlockStmt{List: []ast.Stmt{define([]ast.Expr{ch}, r.X), loop}}
	t.labelTarget[blk] = &blk.List[1]
	return blk
}

func (t *tr) selectStmt(s *ast.SelectStmt) ast.Stmt {
	var pre []ast.Stmt
	var caseVars []ast.Expr
	var clauses []ast.Stmt
	hasDefault := false
	idx := 0
	for _, c := range s.Body.List {
		cc := c.(*ast.CommClause)
		if cc.Comm == nil {
			hasDefault = true
			clauses = append(clauses, &ast.CaseClause{List: nil, Body: cc.Body})
			continue
		}
		k := t.fresh("k")
		var bodyPre []ast.Stmt
		switch m := cc.Comm.(type) {
		case *ast.ExprStmt:
			call, ok := m.X.(*ast.CallExpr)
			kind := t.gen[call]
			if !ok || kind == "" {
				fatal("%s: unexpected select comm", t.fset.Position(cc.Pos()))
			}
			if kind == "send" {
				c0, v0 := t.fresh("c"), t.fresh("v")
				pre = append(pre, define([]ast.Expr{c0}, call.Args[0]), define([]ast.Expr{v0}, call.Args[1]))
				pre = append(pre, define([]ast.Expr{k}, t.call("SendCase", c0, v0)))
			} else {
				c0 := t.fresh("c")
				pre = append(pre, define([]ast.Expr{c0}, call.Args[0]))
				pre = append(pre, define([]ast.Expr{k}, t.call("RecvCase", c0)))
			}
		case *ast.AssignStmt:
			call, ok := m.Rhs[0].(*ast.CallExpr)
			kind := t.gen[call]
			if !ok || (kind != "recv" && kind != "recv2") {
				fatal("%s: unexpected select recv", t.fset.Position(cc.Pos()))
			}
			c0 := t.fresh("c")
			pre = append(pre, define([]ast.Expr{c0}, call.Args[0]))
			pre = append(pre, define([]ast.Expr{k}, t.call("RecvCase", c0)))
			rhs := []ast.Expr{&ast.SelectorExpr{X: k, Sel: ast.NewIdent("Val")}}
			if len(m.Lhs) == 2 {
				rhs = append(rhs, &ast.SelectorExpr{X: k, Sel: ast.NewIdent("Ok")})
			}
			bodyPre = append(bodyPre, &ast.AssignStmt{Lhs: m.Lhs, Tok: m.Tok, Rhs: rhs})
		default:
			fatal("%s: unexpected select comm %T", t.fset.Position(cc.Pos()), m)
		}
		caseVars = append(caseVars, k)
		clauses = append(clauses, &ast.CaseClause{
			List: []ast.Expr{&ast.BasicLit{Kind: token.INT, Value: fmt.Sprint(idx)}},
			Body: append(bodyPre, cc.Body...),
		})
		idx++
	}
	def := "false"
	if hasDefault {
		def = "true"
	} else {
		// keeps the statement terminating when the select was (Go's rule for switch needs a default clause)
		clauses = append(clauses, &ast.CaseClause{List: nil, Body: []ast.Stmt{&ast.ExprStmt{X: &ast.CallExpr{Fun: ast.NewIdent("panic"), Args: []ast.Expr{&ast.BasicLit{Kind: token.STRING, Value: `"gosim: select returned an impossible case"`}}}}}})
	}
	args := append([]ast.Expr{ast.NewIdent(def)}, caseVars...)
	sw := ast.Stmt(&ast.SwitchStmt{Tag: t.call("Select", args...), Body: &ast.BlockStmt{List: clauses}})
	blk := &ast.BlockStmt{List: append(pre, sw)}
	t.labelTarget[blk] = &blk.List[len(blk.List)-1]
	return blk
}

// residual checks that nothing was left behind.
func residual(fset *token.FileSet, f *ast.File) {
	ast.Inspect(f, func(n ast.Node) bool {
		switch v := n.(type) {
		case *ast.ChanType, *ast.SendStmt, *ast.SelectStmt, *ast.GoStmt:
			fatal("%s: residual %T", fset.Position(n.Pos()), n)
		case *ast.UnaryExpr:
			if v.Op == token.ARROW {
				fatal("%s: residual receive", fset.Position(n.Pos()))
			}
		}
		return true
	})
}

func translate(importPath, srcDir string, lookup func(string) (io.ReadCloser, error), total counts) {
	bp, err := build.ImportDir(srcDir, 0)
	if err != nil {
		fatal("%s: %v", srcDir, err)
	}
	fset := token.NewFileSet()
	var files []*ast.File
	for _, name := range bp.GoFiles {
		f, err := parser.ParseFile(fset, filepath.Join(srcDir, name), nil, parser.ParseComments|parser.SkipObjectResolution)
		if err != nil {
			fatal("%v", err)
		}
		files = append(files, f)
	}
	info := &types.Info{Types: map[ast.Expr]types.TypeAndValue{}, Uses: map[*ast.Ident]types.Object{}, Defs: map[*ast.Ident]types.Object{}}
	conf := types.Config{Importer: importer.ForCompiler(fset, "gc", lookup), Error: func(err error) { fmt.Fprintln(os.Stderr, "typecheck:", err) }}
	if _, err := conf.Check(importPath, fset, files, info); err != nil {
		fatal("type check %s: %v", importPath, err)
	}
	dst := filepath.Join(*outDir, importPath)
	os.MkdirAll(dst, 0o755)
	shared := sharedMutable(info, files)
	for i, f := range files {
		t := &tr{importPath: importPath, fset: fset, info: info, cnt: counts{}, chanRange: map[*ast.RangeStmt]bool{}, chanCall: map[*ast.CallExpr]string{},
			commaOk: map[*ast.UnaryExpr]bool{}, gen: map[*ast.CallExpr]string{}, wrapped: map[*ast.CallExpr]bool{}, labelTarget: map[ast.Stmt]*ast.Stmt{}}
		t.prepass(f)
		t.sharedVars(f, shared)
		t.walk(f)
		// imports
		for _, im := range f.Imports {
			p := strings.Trim(im.Path.Value, `"`)
			if sh, ok := shims[p]; ok {
				name := filepath.Base(p)
				if im.Name != nil {
					name = im.Name.Name
				}
				im.Name = ast.NewIdent(name)
				im.Path.Value = fmt.Sprintf("%q", *rtPath+sh)
				t.cnt["import:"+p]++
			}
		}
		if t.cnt["gosched"] > 0 {
			// runtime.Gosched was the only use of the import in many files; keep the import used
			name := "runtime"
			for _, im := range f.Imports {
				if strings.Trim(im.Path.Value, `"`) == "runtime" && im.Name != nil {
					name = im.Name.Name
				}
			}
			f.Decls = append(f.Decls, &ast.GenDecl{Tok: token.VAR, Specs: []ast.Spec{&ast.ValueSpec{Names: []*ast.Ident{ast.NewIdent("_")}, Values: []ast.Expr{&ast.SelectorExpr{X: ast.NewIdent(name), Sel: ast.NewIdent("NumCPU")}}}}})
		}
		if t.needRT {
			spec := &ast.ImportSpec{Name: ast.NewIdent("__rt"), Path: &ast.BasicLit{Kind: token.STRING, Value: fmt.Sprintf("%q", *rtPath)}}
			decl := &ast.GenDecl{Tok: token.IMPORT, Specs: []ast.Spec{spec}}
			f.Decls = append([]ast.Decl{decl}, f.Decls...)
		}
		residual(fset, f)
		f.Comments = nil // positions of generated nodes confuse comment placement
		var buf bytes.Buffer
		if err := format.Node(&buf, fset, f); err != nil {
			fatal("print: %v", err)
		}
		out := filepath.Join(dst, bp.GoFiles[i])
		if err := os.WriteFile(out, buf.Bytes(), 0o644); err != nil {
			fatal("%v", err)
		}
		for k, v := range t.cnt {
			total[importPath+" "+k] += v
		}
	}
}

func main() {
	flag.Var(&pkgs, "pkg", "importpath=srcdir (repeatable)")
	flag.Parse()
	var patterns []string
	for _, p := range pkgs {
		patterns = append(patterns, strings.SplitN(p, "=", 2)[0])
	}
	lookup := exportLookup(*listDir, patterns)
	total := counts{}
	for _, p := range pkgs {
		kv := strings.SplitN(p, "=", 2)
		translate(kv[0], kv[1], lookup, total)
	}
	var keys []string
	for k := range total {
		keys = append(keys, k)
	}
	sort.Strings(keys)
	for _, k := range keys {
		fmt.Printf("%-60s %d\n", k, total[k])
	}
}
