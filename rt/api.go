package rt

import (
	"fmt"
	"strconv"
)

// Chan is the simulated channel; a nil *Chan is the nil channel.
type Chan[T any] struct{ core chanCore }

func (c *Chan[T]) Cap() int {
	if c == nil {
		return 0
	}
	return c.core.cap
}

func (c *Chan[T]) Len() int {
	if c == nil {
		return 0
	}
	return len(c.core.buf)
}

// Stats for oracles.
func (c *Chan[T]) Dequeued() int  { return c.core.NRecv }
func (c *Chan[T]) IsClosed() bool { return c.core.closed }

func coreOf[T any](c *Chan[T]) *chanCore {
	if c == nil {
		return nil
	}
	return &c.core
}

// globalChans are channels made while no execution is running: package-level variables of the translated code
// (`var slots = make(chan struct{}, 256)`). They live as long as the process; every execution starts with them
// empty and open, under an identity that does not depend on the schedule.
var globalChans []*chanCore

func MakeChan[T any](n int) *Chan[T] {
	x := X
	if n < 0 {
		panic("makechan: size out of range")
	}
	c := &Chan[T]{}
	c.core.cap = n
	if x == nil {
		c.core.id = fmt.Sprintf("g#%d", len(globalChans))
		globalChans = append(globalChans, &c.core)
		return c
	}
	if x.cur != nil {
		c.core.id = fmt.Sprintf("%s#%d", x.cur.ID, x.cur.nchan)
		x.cur.nchan++
	} else {
		c.core.id = fmt.Sprintf("tm#%d", len(x.chans))
	}
	x.chans = append(x.chans, &c.core)
	return c
}

func Send[T any](c *Chan[T], v T) {
	X.doOp(&op{kind: opComm, cases: []*commCase{{ch: coreOf(c), dir: dirSend, val: v}}})
}

func Recv2[T any](c *Chan[T]) (T, bool) {
	k := &commCase{ch: coreOf(c), dir: dirRecv}
	X.doOp(&op{kind: opComm, cases: []*commCase{k}})
	if !k.rok {
		var z T
		return z, false
	}
	v, _ := k.rv.(T) // a nil interface value travels as nil: the comma-ok form yields T's zero value, which is that nil
	return v, true
}

func Recv[T any](c *Chan[T]) T {
	v, _ := Recv2(c)
	return v
}

func Close[T any](c *Chan[T]) {
	X.doOp(&op{kind: opClose, ch: coreOf(c)})
}

// select
type Case interface{ comm() *commCase }

type SCase[T any] struct{ c commCase }
type RCase[T any] struct {
	c   commCase
	Val T
	Ok  bool
}

func (s *SCase[T]) comm() *commCase { return &s.c }
func (r *RCase[T]) comm() *commCase { return &r.c }

func SendCase[T any](c *Chan[T], v T) *SCase[T] {
	return &SCase[T]{c: commCase{ch: coreOf(c), dir: dirSend, val: v}}
}
func RecvCase[T any](c *Chan[T]) *RCase[T] {
	return &RCase[T]{c: commCase{ch: coreOf(c), dir: dirRecv}}
}

// fill copies the received value into the typed case after the select.
func (r *RCase[T]) fill() {
	if r.c.rok {
		r.Val, _ = r.c.rv.(T)
		r.Ok = true
	}
}

type filler interface{ fill() }

func Select(hasDefault bool, cases ...Case) int {
	o := &op{kind: opComm, hasDefault: hasDefault}
	for _, c := range cases {
		o.cases = append(o.cases, c.comm())
	}
	X.doOp(o)
	if o.chosen >= 0 {
		if f, ok := cases[o.chosen].(filler); ok {
			f.fill()
		}
	}
	return o.chosen
}

// Go starts a simulated goroutine; site is the source position of the go
// statement as recorded by gosim (importpath/file.go:line).
func Go(site string, f func()) {
	x := X
	if x.teardown {
		return
	}
	x.spawn(x.cur, f, site)
}

func Yield() { X.doOp(&op{kind: opYield}) }

// Gosched is runtime.Gosched: the caller gives way until another thread has taken a step (see op.gosched).
func Gosched() {
	if X == nil || X.teardown {
		return
	}
	X.doOp(&op{kind: opYield, gosched: true, waiting: true})
}

// SharedOp is the scheduling point in front of an access to memory that several threads share outside the
// simulated objects (a variable captured by goroutine closures, a package-level variable, an atomic). The value
// of such memory is not part of the state key, so the global order of these accesses is: two prefixes are
// merged only if they performed their shared accesses in the same thread order.
func SharedOp() {
	x := X
	if x == nil || x.teardown || x.cur == nil {
		return
	}
	x.doOp(&op{kind: opYield})
	var s Thread
	s.h1, s.h2 = x.sharedSeq[0], x.sharedSeq[1]
	s.mix(x.cur.ID)
	x.sharedSeq = [2]uint64{s.h1, s.h2}
}

func Sleep(d int64) {
	x := X
	if x.teardown {
		return
	}
	if d < 0 {
		d = 0
	}
	x.doOp(&op{kind: opSleep, wakeAt: x.Now + d})
}

func Now() int64 {
	if X == nil {
		return 0
	}
	return X.Now
}

// After returns a channel that receives v once the virtual clock has advanced by d.
func After[T any](d int64, v T) *Chan[T] {
	return NewTimer(d, 0, func(int64) T { return v }).C
}

// Timer is a one-shot (period 0) or periodic timer on the virtual clock.
type Timer[T any] struct {
	C  *Chan[T]
	tm *timer
}

// NewTimer arms a timer that delivers mk(fire time) on C after d, then every period (if > 0).
func NewTimer[T any](d, period int64, mk func(at int64) T) *Timer[T] {
	x := X
	c := MakeChan[T](1)
	if d < 0 {
		d = 0
	}
	tm := &timer{at: x.Now + d, ch: &c.core, mk: func(at int64) any { return mk(at) }, period: period}
	x.timers = append(x.timers, tm)
	return &Timer[T]{C: c, tm: tm}
}

// Stop disarms the timer; it reports whether the timer was armed.
func (t *Timer[T]) Stop() bool {
	was := !t.tm.fired
	t.tm.fired = true
	return was
}

// Reset re-arms the timer to fire after d; it reports whether the timer was armed.
func (t *Timer[T]) Reset(d int64) bool {
	was := !t.tm.fired
	if d < 0 {
		d = 0
	}
	t.tm.at = X.Now + d
	t.tm.fired = false
	return was
}

// WaitGroup
type WaitGroup struct {
	id string
	n  int
}

func (x *Exec) objID() string {
	if x.cur == nil {
		return fmt.Sprintf("g$%d", len(x.wgs)+len(x.mus))
	}
	x.cur.nobj++
	return fmt.Sprintf("%s$%d", x.cur.ID, x.cur.nobj)
}

func (w *WaitGroup) reg() {
	if w.id == "" {
		x := X
		w.id = x.objID()
		x.wgs = append(x.wgs, w)
	}
}

// Go is sync.WaitGroup.Go.
func (w *WaitGroup) Go(f func()) {
	w.Add(1)
	Go("wg.Go", func() { defer w.Done(); f() })
}

// Mutex is the simulated sync.Mutex (also used for RWMutex write locks).
type Mutex struct {
	id   string
	held bool
}

func (m *Mutex) reg() {
	if m.id == "" {
		x := X
		m.id = x.objID()
		x.mus = append(x.mus, m)
	}
}

func (m *Mutex) Lock() {
	if X.teardown {
		return
	}
	m.reg()
	X.doOp(&op{kind: opLock, mu: m})
}

func (m *Mutex) TryLock() bool {
	m.reg()
	if m.held {
		return false
	}
	m.held = true
	return true
}

func (m *Mutex) Unlock() {
	if X.teardown {
		return
	}
	m.reg()
	if !m.held {
		panic("sync: unlock of unlocked mutex")
	}
	m.held = false
}

// Cell registers an integer shared between harness threads as part of the state.
func Cell(p *int) {
	if X != nil {
		X.Cells = append(X.Cells, p)
	}
}

func (w *WaitGroup) Add(d int) {
	if X.teardown {
		return
	}
	w.reg()
	if d > 0 && w.n == 0 && w.waiters() {
		// a counter that is raised from zero while some thread is (or will be) in Wait: the moment before the Add is a
		// state in which Wait passes. It must be a scheduling point of its own, otherwise the Add would be glued to the
		// caller's previous operation and that window would never be explored (found with seeded change C12-r5m2: the
		// closer goroutine was started before the loop that does wg.Add(1) per input).
		X.doOp(&op{kind: opYield})
	}
	w.n += d
	if w.n < 0 {
		panic("sync: negative WaitGroup counter")
	}
}
func (w *WaitGroup) Done() { w.Add(-1) }

// waiters: some live thread is parked in Wait on this group, or has been started and not yet run (it may be about to).
func (w *WaitGroup) waiters() bool {
	for _, t := range X.Threads {
		if t.done || t == X.cur || t.pending == nil {
			continue
		}
		if (t.pending.kind == opWGWait && t.pending.wg == w) || t.pending.kind == opStart {
			return true
		}
	}
	return false
}
func (w *WaitGroup) Wait() {
	if X.teardown {
		return
	}
	w.reg()
	X.doOp(&op{kind: opWGWait, wg: w})
}

// Log appends an event to the *current thread's* log and mixes it into that
// thread's observation history (so that state merging never forgets it).
func Log(kind string, args ...any) {
	x := X
	if x == nil || x.teardown || x.cur == nil {
		return
	}
	t := x.cur
	t.Log = append(t.Log, Event{Time: x.Now, Kind: kind, Args: args})
	var buf [64]byte
	b := append(buf[:0], 'L')
	b = strconv.AppendInt(b, x.Now, 10)
	b = append(b, kind...)
	for _, a := range args {
		b = append(b, ' ')
		switch v := a.(type) {
		case int:
			b = strconv.AppendInt(b, int64(v), 10)
		case string:
			b = append(b, v...)
		default:
			b = append(b, repr(a)...)
		}
	}
	t.mixb(b)
	if x.Trace != nil {
		x.tracef("    log %s: %s %v\n", t.ID, kind, args)
	}
}

// Watch registers a named predicate evaluated on the terminal state (used by
// harnesses to let oracles see whether a returned channel has been closed).
func Watch(name string, f func() bool) {
	if X != nil && !X.teardown {
		X.Watches = append(X.Watches, Watcher{name, f})
	}
}

type Watcher struct {
	Name string
	F    func() bool
}

// ClosedFlag is implemented by *Chan[T].
type ClosedFlag interface{ IsClosed() bool }

// MarkDone flags a channel as a context's Done channel (see Exec.DonePriority).
func MarkDone[T any](c *Chan[T]) { c.core.isDone = true }
