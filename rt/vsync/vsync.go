// Package vsync shims package sync on the simulated runtime.
package vsync

import "verif/rt"

type WaitGroup = rt.WaitGroup
type Mutex = rt.Mutex

// RWMutex treats readers as writers (fewer behaviours than the real one, never more).
type RWMutex struct{ rt.Mutex }

func (m *RWMutex) RLock()   { m.Lock() }
func (m *RWMutex) RUnlock() { m.Unlock() }

type Locker interface {
	Lock()
	Unlock()
}

// Once runs f once; the caller holds the processor for the duration of f unless f blocks.
type Once struct {
	m    rt.Mutex
	done bool
}

func (o *Once) Do(f func()) {
	o.m.Lock()
	defer o.m.Unlock()
	if !o.done {
		o.done = true
		f()
	}
}

// Pool is deterministic: LIFO recycling when rt.X.PoolLIFO is set, else it
// never recycles. Checks that depend on recycling run both policies.
type Pool struct {
	New  func() any
	free []any
}

func (p *Pool) Get() any {
	if rt.X != nil && rt.X.PoolLIFO && len(p.free) > 0 {
		v := p.free[len(p.free)-1]
		p.free = p.free[:len(p.free)-1]
		return v
	}
	if p.New != nil {
		return p.New()
	}
	return nil
}

func (p *Pool) Put(v any) { p.free = append(p.free, v) }
