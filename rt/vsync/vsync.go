// Package vsync shims package sync on the simulated runtime.
package vsync

import "verif/rt"

type WaitGroup = rt.WaitGroup
type Mutex = rt.Mutex

// RWMutex treats readers as writers (fewer behaviours than the real one, never more).
type RWMutex struct{ rt.Mutex }

func (m *RWMutex) RLock()   { m.Lock() }
func (m *RWMutex) RUnlock() { m.Unlock() }

type Locker interface {
	Lock()
	Unlock()
}

// Once runs f once; the caller holds the processor for the duration of f unless f blocks.
type Once struct {
	m    rt.Mutex
	done bool
}

func (o *Once) Do(f func()) {
	o.m.Lock()
	defer o.m.Unlock()
	if !o.done {
		o.done = true
		f()
	}
}

// Pool is deterministic: LIFO recycling when rt.X.PoolLIFO is set, else it
// never recycles. Checks that depend on recycling run both policies.
type Pool struct {
	New  func() any
	free []any
}

func (p *Pool) Get() any {
	if rt.X != nil && rt.X.PoolLIFO && len(p.free) > 0 {
		v := p.free[len(p.free)-1]
		p.free = p.free[:len(p.free)-1]
		return v
	}
	if p.New != nil {
		return p.New()
	}
	return nil
}

func (p *Pool) Put(v any) { p.free = append(p.free, v) }

// OnceFunc / OnceValue mirror the helpers of package sync.
func OnceFunc(f func()) func() {
	var o Once
	return func() { o.Do(f) }
}

func OnceValue[T any](f func() T) func() T {
	var o Once
	var v T
	return func() T {
		o.Do(func() { v = f() })
		return v
	}
}

// Cond mirrors sync.Cond: a waiter parks on a private channel that Signal / Broadcast close.
type Cond struct {
	L       Locker
	waiters []*rt.Chan[struct{}]
}

func NewCond(l Locker) *Cond { return &Cond{L: l} }

func (c *Cond) Wait() {
	w := rt.MakeChan[struct{}](0)
	c.waiters = append(c.waiters, w)
	c.L.Unlock()
	rt.Recv2(w)
	c.L.Lock()
}

func (c *Cond) Signal() {
	if len(c.waiters) > 0 {
		w := c.waiters[0]
		c.waiters = c.waiters[1:]
		rt.Close(w)
	}
}

func (c *Cond) Broadcast() {
	ws := c.waiters
	c.waiters = nil
	for _, w := range ws {
		rt.Close(w)
	}
}

// Map mirrors sync.Map for the operations a pipeline stage could plausibly use; every operation is a scheduling point.
type Map struct{ m map[any]any }

func (m *Map) Load(k any) (any, bool) { rt.Yield(); v, ok := m.m[k]; return v, ok }
func (m *Map) Store(k, v any) {
	rt.Yield()
	if m.m == nil {
		m.m = map[any]any{}
	}
	m.m[k] = v
}
func (m *Map) LoadOrStore(k, v any) (any, bool) {
	rt.Yield()
	if old, ok := m.m[k]; ok {
		return old, true
	}
	if m.m == nil {
		m.m = map[any]any{}
	}
	m.m[k] = v
	return v, false
}
func (m *Map) Delete(k any) { rt.Yield(); delete(m.m, k) }
func (m *Map) LoadAndDelete(k any) (any, bool) {
	rt.Yield()
	v, ok := m.m[k]
	delete(m.m, k)
	return v, ok
}
