// Package vcontext shims package context on the simulated runtime.
package vcontext

import (
	"errors"
	"time"

	"verif/rt"
)

type Context interface {
	Done() *rt.Chan[struct{}]
	Err() error
}

type CancelFunc func()

var Canceled = errors.New("context canceled")
var DeadlineExceeded = errors.New("context deadline exceeded")

type bg struct{}

func (bg) Done() *rt.Chan[struct{}] { return nil }
func (bg) Err() error               { return nil }

func Background() Context { return bg{} }

type cctx struct {
	done     *rt.Chan[struct{}]
	err      error
	started  bool
	children []*cctx
}

func (c *cctx) Done() *rt.Chan[struct{}] { return c.done }
func (c *cctx) Err() error               { return c.err }

func (c *cctx) cancel() { c.cancelWith(Canceled) }

func (c *cctx) cancelWith(err error) {
	if c.started {
		return
	}
	c.started = true
	rt.Close(c.done) // the close and the error become visible in the same atomic step
	c.err = err
	for _, ch := range c.children {
		ch.cancelWith(err)
	}
}

// WithTimeout cancels on the virtual clock.
func WithTimeout(parent Context, d time.Duration) (Context, CancelFunc) {
	c, cancel := WithCancel(parent)
	tm := rt.After(int64(d), struct{}{})
	rt.Go("context.WithTimeout", func() {
		switch rt.Select(false, rt.RecvCase(tm), rt.RecvCase(c.Done())) {
		case 0:
			c.(*cctx).cancelWith(DeadlineExceeded)
		}
	})
	return c, cancel
}

// TODO returns an empty context, like Background.
func TODO() Context { return bg{} }

func WithCancel(parent Context) (Context, CancelFunc) {
	c := &cctx{done: rt.MakeChan[struct{}](0)}
	rt.MarkDone(c.done)
	if p, ok := parent.(*cctx); ok {
		if p.started {
			c.cancel()
		} else {
			p.children = append(p.children, c)
		}
	}
	return c, c.cancel
}
