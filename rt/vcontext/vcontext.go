// Package vcontext shims package context on the simulated runtime.
package vcontext

import (
	"errors"
	"time"

	"verif/rt"
)

type Context interface {
	Done() *rt.Chan[struct{}]
	Err() error
	Value(key any) any
	Deadline() (deadline time.Time, ok bool)
}

type CancelFunc func()
type CancelCauseFunc func(cause error)

var Canceled = errors.New("context canceled")
var DeadlineExceeded = errors.New("context deadline exceeded")

type bg struct{}

func (bg) Done() *rt.Chan[struct{}]    { return nil }
func (bg) Err() error                  { return nil }
func (bg) Value(any) any               { return nil }
func (bg) Deadline() (time.Time, bool) { return time.Time{}, false }

func Background() Context { return bg{} }

// TODO returns an empty context, like Background.
func TODO() Context { return bg{} }

type cctx struct {
	parent   Context
	done     *rt.Chan[struct{}]
	err      error
	cause    error
	started  bool
	children []*cctx
	after    []*afterFunc
	deadline int64 // virtual ns, 0 = none
}

func (c *cctx) Done() *rt.Chan[struct{}] { return c.done }
func (c *cctx) Err() error               { return c.err }
func (c *cctx) Value(key any) any        { return c.parent.Value(key) }
func (c *cctx) Deadline() (time.Time, bool) {
	if c.deadline != 0 {
		return time.Unix(0, 0).UTC().Add(time.Duration(c.deadline)), true
	}
	return c.parent.Deadline()
}

func (c *cctx) cancel() { c.cancelWith(Canceled, nil) }

func (c *cctx) cancelWith(err, cause error) {
	if c.started {
		return
	}
	c.started = true
	rt.Close(c.done) // the close and the error become visible in the same atomic step
	c.err = err
	if cause == nil {
		cause = err
	}
	c.cause = cause
	for _, ch := range c.children {
		ch.cancelWith(err, cause)
	}
	for _, a := range c.after {
		a.fire()
	}
}

// cancelCtx finds the nearest cancellable ancestor (value contexts are transparent).
func cancelCtx(p Context) *cctx {
	for {
		switch v := p.(type) {
		case *cctx:
			return v
		case *vctx:
			p = v.Context
		case withoutCancel:
			return nil
		default:
			return nil
		}
	}
}

func WithCancel(parent Context) (Context, CancelFunc) {
	c := &cctx{parent: parent, done: rt.MakeChan[struct{}](0)}
	rt.MarkDone(c.done)
	if p := cancelCtx(parent); p != nil {
		if p.started {
			c.cancelWith(p.err, p.cause)
		} else {
			p.children = append(p.children, c)
		}
	}
	return c, c.cancel
}

func WithCancelCause(parent Context) (Context, CancelCauseFunc) {
	c, _ := WithCancel(parent)
	return c, func(cause error) { c.(*cctx).cancelWith(Canceled, cause) }
}

// Cause returns the cause of the cancellation of the nearest cancellable context.
func Cause(c Context) error {
	if p := cancelCtx(c); p != nil {
		return p.cause
	}
	return nil
}

// WithTimeout cancels on the virtual clock.
func WithTimeout(parent Context, d time.Duration) (Context, CancelFunc) {
	c, cancel := WithCancel(parent)
	c.(*cctx).deadline = rt.Now() + int64(d)
	if d <= 0 {
		c.(*cctx).cancelWith(DeadlineExceeded, nil)
		return c, cancel
	}
	tm := rt.After(int64(d), struct{}{})
	rt.Go("context.WithTimeout", func() {
		switch rt.Select(false, rt.RecvCase(tm), rt.RecvCase(c.Done())) {
		case 0:
			c.(*cctx).cancelWith(DeadlineExceeded, nil)
		}
	})
	return c, cancel
}

func WithDeadline(parent Context, t time.Time) (Context, CancelFunc) {
	return WithTimeout(parent, t.Sub(time.Unix(0, 0).UTC().Add(time.Duration(rt.Now()))))
}

type vctx struct {
	Context
	key, val any
}

func (v *vctx) Value(key any) any {
	if v.key == key {
		return v.val
	}
	return v.Context.Value(key)
}

func WithValue(parent Context, key, val any) Context { return &vctx{parent, key, val} }

type withoutCancel struct{ c Context }

func (withoutCancel) Done() *rt.Chan[struct{}]    { return nil }
func (withoutCancel) Err() error                  { return nil }
func (w withoutCancel) Value(key any) any         { return w.c.Value(key) }
func (withoutCancel) Deadline() (time.Time, bool) { return time.Time{}, false }

func WithoutCancel(parent Context) Context { return withoutCancel{parent} }

type afterFunc struct {
	f       func()
	stopped bool
	fired   bool
}

func (a *afterFunc) fire() {
	if a.stopped || a.fired {
		return
	}
	a.fired = true
	rt.Go("context.AfterFunc", a.f)
}

// AfterFunc runs f in its own simulated goroutine once ctx is done; stop reports whether it prevented that.
func AfterFunc(ctx Context, f func()) (stop func() bool) {
	a := &afterFunc{f: f}
	p := cancelCtx(ctx)
	switch {
	case p == nil:
	case p.started:
		a.fire()
	default:
		p.after = append(p.after, a)
	}
	return func() bool {
		if a.fired || a.stopped {
			return false
		}
		a.stopped = true
		return true
	}
}
