// Package vatomic shims package sync/atomic on the simulated runtime: every
// atomic operation is a scheduling point (so that code which synchronises, or
// fails to, through atomics is interleaved at exactly those points, and a loop
// that spins on an atomic does not monopolise the one running thread).
package vatomic

import (
	"unsafe"

	"verif/rt"
)

type integer interface {
	~int32 | ~int64 | ~uint32 | ~uint64 | ~uintptr
}

func add[T integer](p *T, d T) T { rt.SharedOp(); *p += d; return *p }
func load[T any](p *T) T         { rt.SharedOp(); return *p }
func store[T any](p *T, v T)     { rt.SharedOp(); *p = v }
func swap[T any](p *T, v T) T    { rt.SharedOp(); o := *p; *p = v; return o }
func cas[T comparable](p *T, o, n T) bool {
	rt.SharedOp()
	if *p == o {
		*p = n
		return true
	}
	return false
}

func AddInt32(p *int32, d int32) int32                 { return add(p, d) }
func AddInt64(p *int64, d int64) int64                 { return add(p, d) }
func AddUint32(p *uint32, d uint32) uint32             { return add(p, d) }
func AddUint64(p *uint64, d uint64) uint64             { return add(p, d) }
func AddUintptr(p *uintptr, d uintptr) uintptr         { return add(p, d) }
func LoadInt32(p *int32) int32                         { return load(p) }
func LoadInt64(p *int64) int64                         { return load(p) }
func LoadUint32(p *uint32) uint32                      { return load(p) }
func LoadUint64(p *uint64) uint64                      { return load(p) }
func LoadUintptr(p *uintptr) uintptr                   { return load(p) }
func LoadPointer(p *unsafe.Pointer) unsafe.Pointer     { return load(p) }
func StoreInt32(p *int32, v int32)                     { store(p, v) }
func StoreInt64(p *int64, v int64)                     { store(p, v) }
func StoreUint32(p *uint32, v uint32)                  { store(p, v) }
func StoreUint64(p *uint64, v uint64)                  { store(p, v) }
func StoreUintptr(p *uintptr, v uintptr)               { store(p, v) }
func StorePointer(p *unsafe.Pointer, v unsafe.Pointer) { store(p, v) }
func SwapInt32(p *int32, v int32) int32                { return swap(p, v) }
func SwapInt64(p *int64, v int64) int64                { return swap(p, v) }
func SwapUint32(p *uint32, v uint32) uint32            { return swap(p, v) }
func SwapUint64(p *uint64, v uint64) uint64            { return swap(p, v) }
func CompareAndSwapInt32(p *int32, o, n int32) bool    { return cas(p, o, n) }
func CompareAndSwapInt64(p *int64, o, n int64) bool    { return cas(p, o, n) }
func CompareAndSwapUint32(p *uint32, o, n uint32) bool { return cas(p, o, n) }
func CompareAndSwapUint64(p *uint64, o, n uint64) bool { return cas(p, o, n) }

type Int32 struct{ v int32 }

func (x *Int32) Load() int32                    { return load(&x.v) }
func (x *Int32) Store(v int32)                  { store(&x.v, v) }
func (x *Int32) Add(d int32) int32              { return add(&x.v, d) }
func (x *Int32) Swap(v int32) int32             { return swap(&x.v, v) }
func (x *Int32) CompareAndSwap(o, n int32) bool { return cas(&x.v, o, n) }

type Int64 struct{ v int64 }

func (x *Int64) Load() int64                    { return load(&x.v) }
func (x *Int64) Store(v int64)                  { store(&x.v, v) }
func (x *Int64) Add(d int64) int64              { return add(&x.v, d) }
func (x *Int64) Swap(v int64) int64             { return swap(&x.v, v) }
func (x *Int64) CompareAndSwap(o, n int64) bool { return cas(&x.v, o, n) }

type Uint32 struct{ v uint32 }

func (x *Uint32) Load() uint32                    { return load(&x.v) }
func (x *Uint32) Store(v uint32)                  { store(&x.v, v) }
func (x *Uint32) Add(d uint32) uint32             { return add(&x.v, d) }
func (x *Uint32) Swap(v uint32) uint32            { return swap(&x.v, v) }
func (x *Uint32) CompareAndSwap(o, n uint32) bool { return cas(&x.v, o, n) }

type Uint64 struct{ v uint64 }

func (x *Uint64) Load() uint64                    { return load(&x.v) }
func (x *Uint64) Store(v uint64)                  { store(&x.v, v) }
func (x *Uint64) Add(d uint64) uint64             { return add(&x.v, d) }
func (x *Uint64) Swap(v uint64) uint64            { return swap(&x.v, v) }
func (x *Uint64) CompareAndSwap(o, n uint64) bool { return cas(&x.v, o, n) }

type Bool struct{ v bool }

func (x *Bool) Load() bool                    { return load(&x.v) }
func (x *Bool) Store(v bool)                  { store(&x.v, v) }
func (x *Bool) Swap(v bool) bool              { return swap(&x.v, v) }
func (x *Bool) CompareAndSwap(o, n bool) bool { return cas(&x.v, o, n) }

type Pointer[T any] struct{ v *T }

func (x *Pointer[T]) Load() *T                    { return load(&x.v) }
func (x *Pointer[T]) Store(v *T)                  { store(&x.v, v) }
func (x *Pointer[T]) Swap(v *T) *T                { return swap(&x.v, v) }
func (x *Pointer[T]) CompareAndSwap(o, n *T) bool { return cas(&x.v, o, n) }

type Value struct{ v any }

func (x *Value) Load() any      { return load(&x.v) }
func (x *Value) Store(v any)    { store(&x.v, v) }
func (x *Value) Swap(v any) any { return swap(&x.v, v) }
func (x *Value) CompareAndSwap(o, n any) bool {
	rt.SharedOp()
	if x.v == o {
		x.v = n
		return true
	}
	return false
}
