// Package rt is a simulated Go concurrency runtime: threads are carrier
// goroutines of which exactly one runs at a time; every channel / select /
// waitgroup / mutex / sleep operation is a scheduling point decided by a Chooser.
//
// The code translated by gosim calls into this package instead of using the
// real channel operations, so that an explorer can enumerate every schedule.
package rt

import (
	"fmt"
	"sort"
	"strconv"
	"strings"
)

type opKind int

const (
	opStart opKind = iota
	opComm         // send / recv / select
	opClose
	opWGWait
	opSleep
	opYield
	opLock
)

type dir int

const (
	dirSend dir = iota
	dirRecv
)

// type-erased channel core
type chanCore struct {
	id     string
	cap    int
	buf    []any
	closed bool
	isDone bool // a context's Done channel
	NRecv  int  // values dequeued (statistics for oracles)
	NSend  int
}

type commCase struct {
	ch  *chanCore // nil => nil channel
	dir dir
	val any  // value to send
	rv  any  // received value
	rok bool // received ok
}

type op struct {
	kind       opKind
	cases      []*commCase
	hasDefault bool
	ch         *chanCore // close
	wg         *WaitGroup
	mu         *Mutex
	wakeAt     int64
	chosen     int // result: case index, -1 default
	panicMsg   string
	str        string
	// gosched: runtime.Gosched. The thread stays disabled until some other thread has taken a step (waiting is
	// cleared then), or until nothing else can run: a loop that polls with Gosched is thereby a blocking wait
	// instead of a cycle, and only executions that differ by idle spinning are left out.
	gosched, waiting bool
}

func (o *op) String() string {
	if o.str != "" {
		return o.str
	}
	switch o.kind {
	case opStart:
		o.str = "start"
	case opClose:
		id := "nil"
		if o.ch != nil {
			id = o.ch.id
		}
		o.str = "close(" + id + ")"
	case opWGWait:
		o.str = "wg.Wait(" + o.wg.id + ")"
	case opLock:
		o.str = "lock(" + o.mu.id + ")"
	case opSleep:
		o.str = "sleep->" + strconv.FormatInt(o.wakeAt, 10)
	case opYield:
		if o.gosched {
			if o.waiting {
				return "gosched(waiting)"
			}
			return "gosched"
		}
		o.str = "yield"
	default:
		var b strings.Builder
		if len(o.cases) != 1 || o.hasDefault {
			b.WriteString("select")
		}
		for _, c := range o.cases {
			id := "nil"
			if c.ch != nil {
				id = c.ch.id
			}
			if c.dir == dirSend {
				b.WriteString("[" + id + "<-" + repr(c.val) + "]")
			} else {
				b.WriteString("[<-" + id + "]")
			}
		}
		if o.hasDefault {
			b.WriteString("[default]")
		}
		o.str = b.String()
	}
	return o.str
}

// Event is one entry of a thread's own log (see Log).
type Event struct {
	Time int64
	Kind string
	Args []any
}

func (e Event) String() string { return fmt.Sprintf("%s%v@%d", e.Kind, e.Args, e.Time) }

// Thread is one simulated goroutine.
type Thread struct {
	ID       string // (parent id).(creation index): independent of the schedule
	Site     string // creation site recorded by gosim: importpath/file.go:line
	Lib      bool   // created by the code under test
	seq      int
	wake     chan struct{}
	pending  *op
	done     bool
	Panic    any
	h1, h2   uint64 // observation-history hash
	nspawn   int
	nchan    int
	nobj     int
	Log      []Event
	AtEnd    string // pending op at the end of the execution ("" = finished)
	f        func()
	x        *Exec
	car      *carrier
	parentID string
}

type transition struct {
	t      *Thread
	ci     int // case index, -1 default, -2 n.a.
	peer   *Thread
	peerCi int
}

type timer struct {
	at     int64
	ch     *chanCore
	mk     func(at int64) any
	fired  bool // disarmed
	period int64
}

// Chooser decides which of n enabled transitions to take; <0 aborts the run.
// cost[i] is 1 when taking transition i preempts a thread that could continue.
type Chooser interface {
	Choose(x *Exec, n int, cost []int) int
}

// Exec is one execution.
type Exec struct {
	Threads    []*Thread
	cur        *Thread
	last       *Thread
	parked     chan *Thread
	teardown   bool
	Now        int64
	Steps      int
	wgs        []*WaitGroup
	mus        []*Mutex
	chans      []*chanCore
	timers     []*timer
	chooser    Chooser
	Horizon    int
	HitHorizon bool
	// Livelock: the horizon was reached while one thread had been taking steps alone for the last 1000 steps or
	// more without changing any shared object - no other thread enabled at any of those points, no timer pending:
	// nothing can ever change what that thread sees, so it spins for ever (creation site and pending operation of the spinner)
	Livelock  string
	solo      int
	soloFP    uint64
	LibPrefix string
	PoolLIFO  bool
	Aborted   bool
	Trace     *strings.Builder // when non-nil every step is described here
	KeyLast   bool             // include the last-run thread in Key (needed when preemptions are bounded)
	// DonePriority restricts the exploration to the schedules in which a thread that can take a receive on a
	// cancelled context's Done channel does so at once. It is used for liveness: under this restriction code
	// that consults the context whenever it is about to proceed must terminate after cancel; an execution that
	// runs into the horizon shows that the context is not consulted on that path.
	DonePriority bool
	// ArmCost makes every choice other than the default one (keep running the current thread, else the lowest
	// thread id; first ready select arm) cost one deviation: a preemption, another thread at a blocking point,
	// another ready select arm, another rendezvous partner. Long scenarios are explored up to a deviation bound
	// instead of a preemption bound (free choices alone multiply by two or three at every loop iteration)
	ArmCost   bool
	Symmetry  bool            // identify states up to permutation of sibling library goroutines (see Key)
	Cells     []*int          // shared cells (env.Shared) - part of the state
	sharedSeq [2]uint64       // hash of the thread order of SharedOp accesses - part of the state
	Watches   []Watcher       // evaluated by oracles on the terminal state
	Final     map[string]bool // results of the watches at the end of the execution
}

// X is the execution in progress (one per process at a time).
var X *Exec

// A carrier is a real goroutine that runs one simulated thread after the other;
// carriers are reused across executions so that their stacks stay grown.
type carrier struct {
	start chan *Thread
	dead  bool
}

var pool []*carrier // touched by the scheduler goroutine only

type tearDown struct{}

// tearSentinel unwinds a blocked thread at the end of an execution; translated
// code cannot swallow it (gosim rewrites recover() into rt.Recover(recover())).
var tearSentinel = &tearDown{}

// Recover filters the value of a recover() call in translated code.
func Recover(r any) any {
	if r == any(tearSentinel) {
		panic(r)
	}
	return r
}

func (c *carrier) loop() {
	var t *Thread
	normal := false
	defer func() {
		// only reached when the thread body called runtime.Goexit
		if !normal && t != nil {
			c.dead = true
			t.done = true
			t.pending = nil
			t.x.parked <- t
		}
	}()
	for t = range c.start {
		<-t.wake
		c.run(t)
		t.x.parked <- t
	}
	normal = true
}

func (c *carrier) run(t *Thread) {
	defer func() {
		if r := recover(); r != nil && r != any(tearSentinel) {
			t.Panic = r
		}
		t.done = true
		t.pending = nil
	}()
	if t.x.teardown {
		return
	}
	t.f()
}

func (x *Exec) spawn(parent *Thread, f func(), site string) *Thread {
	t := &Thread{Site: site, wake: make(chan struct{}), f: f, x: x}
	if parent == nil {
		t.ID = "0"
	} else {
		t.ID = parent.ID + "." + strconv.Itoa(parent.nspawn)
		parent.nspawn++
	}
	t.Lib = x.LibPrefix != "" && strings.HasPrefix(site, x.LibPrefix)
	t.seq = len(x.Threads)
	t.pending = &op{kind: opStart}
	x.Threads = append(x.Threads, t)
	if parent != nil {
		t.parentID = parent.ID
	}
	var c *carrier
	if n := len(pool); n > 0 {
		c, pool = pool[n-1], pool[:n-1]
	} else {
		c = &carrier{start: make(chan *Thread, 1)}
		go c.loop()
	}
	t.car = c
	c.start <- t
	return t
}

// wait blocks the scheduler until the running thread parks or finishes.
func (x *Exec) wait() {
	t := <-x.parked
	if t.done && t.car != nil && !t.car.dead {
		pool = append(pool, t.car)
		t.car = nil
	}
}

// doOp is called by the running thread: publish the op, yield to the scheduler,
// continue when the scheduler has executed it.
func (x *Exec) doOp(o *op) {
	if x.teardown {
		return
	}
	t := x.cur
	t.pending = o
	x.parked <- t
	<-t.wake
	if x.teardown {
		panic(tearSentinel)
	}
	if o.panicMsg != "" {
		panic(o.panicMsg)
	}
}

func (x *Exec) parkedPeers(t *Thread, ch *chanCore, d dir) (peers []transition) {
	for _, u := range x.Threads {
		if u == t || u.done || u.pending == nil || u.pending.kind != opComm {
			continue
		}
		for j, c := range u.pending.cases {
			if c.ch == ch && c.dir == d {
				peers = append(peers, transition{peer: u, peerCi: j})
			}
		}
	}
	return
}

func (x *Exec) enabled() []transition {
	var ts, spinners []transition
	for _, t := range x.Threads {
		if t.done || t.pending == nil {
			continue
		}
		o := t.pending
		switch o.kind {
		case opYield:
			if o.gosched && o.waiting {
				spinners = append(spinners, transition{t: t, ci: -2})
				continue
			}
			ts = append(ts, transition{t: t, ci: -2})
		case opStart, opClose:
			ts = append(ts, transition{t: t, ci: -2})
		case opWGWait:
			if o.wg.n == 0 {
				ts = append(ts, transition{t: t, ci: -2})
			}
		case opLock:
			if !o.mu.held {
				ts = append(ts, transition{t: t, ci: -2})
			}
		case opSleep:
			if x.Now >= o.wakeAt {
				ts = append(ts, transition{t: t, ci: -2})
			}
		case opComm:
			solo := false // some arm ready without needing a partner
			for i, c := range o.cases {
				ch := c.ch
				if ch == nil {
					continue
				}
				if c.dir == dirSend {
					switch {
					case ch.closed:
						solo = true
						ts = append(ts, transition{t: t, ci: i})
					case ch.cap > 0:
						if len(ch.buf) < ch.cap {
							solo = true
							ts = append(ts, transition{t: t, ci: i})
						}
					default:
						for _, p := range x.parkedPeers(t, ch, dirRecv) {
							solo = true
							ts = append(ts, transition{t: t, ci: i, peer: p.peer, peerCi: p.peerCi})
						}
					}
				} else if len(ch.buf) > 0 || ch.closed {
					solo = true
					ts = append(ts, transition{t: t, ci: i})
				} else if o.hasDefault && ch.cap == 0 && len(x.parkedPeers(t, ch, dirSend)) > 0 {
					// a sender is parked on this unbuffered channel: the rendezvous is
					// enumerated from the sender's side, default must not be offered
					solo = true
				}
			}
			if !solo && o.hasDefault {
				ts = append(ts, transition{t: t, ci: -1})
			}
		}
	}
	if len(ts) == 0 && len(spinners) > 0 {
		// nothing else can run: if the clock can still advance it does so first (Run), otherwise the pollers go on
		timed := false
		for _, t := range x.Threads {
			timed = timed || (!t.done && t.pending != nil && t.pending.kind == opSleep)
		}
		for _, tm := range x.timers {
			timed = timed || !tm.fired
		}
		if !timed {
			ts = spinners
		}
	}
	if x.DonePriority {
		var pri []transition
		for _, tr := range ts {
			if tr.ci >= 0 {
				if c := tr.t.pending.cases[tr.ci]; c.dir == dirRecv && c.ch != nil && c.ch.isDone && c.ch.closed {
					pri = append(pri, tr)
				}
			}
		}
		if len(pri) > 0 {
			ts = pri
		}
	}
	// canonical order: transitions of the last-run thread first, then by thread seq
	sort.SliceStable(ts, func(i, j int) bool {
		a, b := ts[i].t, ts[j].t
		if (a == x.last) != (b == x.last) {
			return a == x.last
		}
		return a.seq < b.seq
	})
	return ts
}

func (x *Exec) resume(t *Thread) {
	x.cur = t
	t.wake <- struct{}{}
	x.wait()
	x.cur = nil
}

func repr(v any) string {
	switch w := v.(type) {
	case nil:
		return "nil"
	case int:
		return strconv.Itoa(w)
	case string:
		return w
	case struct{}:
		return "{}"
	case error:
		return "E:" + w.Error()
	}
	return fmt.Sprintf("%v", v)
}

const prime64 = 1099511628211

func (t *Thread) mix(s string) {
	h1, h2 := t.h1, t.h2
	for i := 0; i < len(s); i++ {
		h1 = (h1 ^ uint64(s[i])) * prime64
		h2 = (h2*31 + uint64(s[i])) ^ (h2 >> 7)
	}
	t.h1 = (h1 ^ 0xff) * prime64
	t.h2 = h2*131 + 7
}

func (t *Thread) mixb(s []byte) {
	h1, h2 := t.h1, t.h2
	for i := 0; i < len(s); i++ {
		h1 = (h1 ^ uint64(s[i])) * prime64
		h2 = (h2*31 + uint64(s[i])) ^ (h2 >> 7)
	}
	t.h1 = (h1 ^ 0xff) * prime64
	t.h2 = h2*131 + 7
}

func (x *Exec) tracef(f string, a ...any) {
	if x.Trace != nil {
		fmt.Fprintf(x.Trace, f, a...)
	}
}

func (x *Exec) apply(tr transition) {
	t := tr.t
	o := t.pending
	x.Steps++
	for _, u := range x.Threads {
		if u != t && u.pending != nil && u.pending.waiting {
			u.pending.waiting = false // another thread has made a step: a thread parked in Gosched may look again
		}
	}
	if x.Trace != nil {
		x.tracef("step %d t=%d thread %s (%s): %s", x.Steps, x.Now, t.ID, t.Site, o)
		if tr.ci >= -1 {
			x.tracef(" arm %d", tr.ci)
		}
		if tr.peer != nil {
			x.tracef(" <-> thread %s (%s) arm %d", tr.peer.ID, tr.peer.Site, tr.peerCi)
		}
		x.tracef("\n")
	}
	now := "@" + strconv.FormatInt(x.Now, 10) + ";"
	switch o.kind {
	case opStart:
		t.mix(now + "start")
		x.resume(t)
	case opYield:
		t.mix(now + "y")
		x.resume(t)
	case opSleep:
		t.mix(now + "sl")
		x.resume(t)
	case opWGWait:
		t.mix(now + "wg")
		x.resume(t)
	case opLock:
		o.mu.held = true
		t.mix(now + "lk")
		x.resume(t)
	case opClose:
		ch := o.ch
		if ch == nil {
			o.panicMsg = "close of nil channel"
		} else if ch.closed {
			o.panicMsg = "close of closed channel"
		} else {
			ch.closed = true
		}
		t.mix(now + "cl" + o.panicMsg)
		x.resume(t)
	case opComm:
		o.chosen = tr.ci
		if tr.ci == -1 {
			t.mix(now + "def")
			x.resume(t)
			return
		}
		c := o.cases[tr.ci]
		ch := c.ch
		if c.dir == dirSend {
			if ch.closed {
				o.panicMsg = "send on closed channel"
				t.mix(now + "s!")
				x.resume(t)
				return
			}
			ch.NSend++
			t.mix(now + "s" + strconv.Itoa(tr.ci) + ch.id)
			if tr.peer != nil {
				po := tr.peer.pending
				po.chosen = tr.peerCi
				pc := po.cases[tr.peerCi]
				pc.rv, pc.rok = c.val, true
				ch.NRecv++
				tr.peer.mix(now + "r" + strconv.Itoa(tr.peerCi) + ch.id + repr(c.val))
				x.resume(t)
				x.resume(tr.peer)
				return
			}
			ch.buf = append(ch.buf, c.val)
			x.resume(t)
			return
		}
		if len(ch.buf) > 0 {
			c.rv, c.rok = ch.buf[0], true
			ch.buf = ch.buf[1:]
			ch.NRecv++
		} else { // closed and empty
			c.rv, c.rok = nil, false
		}
		t.mix(now + "r" + strconv.Itoa(tr.ci) + ch.id + repr(c.rv) + strconv.FormatBool(c.rok))
		x.resume(t)
	}
}

// Key is the canonical state key (two independent 64-bit hashes).
func (x *Exec) Key() [2]uint64 {
	parts := make([]string, 0, len(x.Threads)+len(x.chans)+len(x.wgs)+4)
	var b strings.Builder
	for _, t := range x.Threads {
		b.Reset()
		b.WriteString("T")
		if x.Symmetry && t.Lib {
			// library goroutines started by the same go statement of the same parent are interchangeable
			b.WriteString(t.parentID)
			b.WriteByte('~')
			b.WriteString(t.Site)
		} else {
			b.WriteString(t.ID)
		}
		b.WriteByte('/')
		b.WriteString(strconv.FormatUint(t.h1, 16))
		b.WriteByte('/')
		b.WriteString(strconv.FormatUint(t.h2, 16))
		if t.done {
			b.WriteString("/done")
			if t.Panic != nil {
				b.WriteString("/panic")
			}
		} else if t.pending != nil {
			b.WriteByte('/')
			b.WriteString(t.pending.String())
		}
		parts = append(parts, b.String())
	}
	for _, c := range x.chans {
		b.Reset()
		b.WriteString("C")
		b.WriteString(c.id)
		if c.closed {
			b.WriteString("/closed")
		}
		b.WriteByte('/')
		for _, v := range c.buf {
			b.WriteString(repr(v))
			b.WriteByte(',')
		}
		parts = append(parts, b.String())
	}
	for _, w := range x.wgs {
		parts = append(parts, "W"+w.id+"/"+strconv.Itoa(w.n))
	}
	for _, m := range x.mus {
		parts = append(parts, "U"+m.id+"/"+strconv.FormatBool(m.held))
	}
	for _, tm := range x.timers {
		if !tm.fired {
			parts = append(parts, "M"+tm.ch.id+"/"+strconv.FormatInt(tm.at, 10))
		}
	}
	sort.Strings(parts)
	parts = append(parts, "now"+strconv.FormatInt(x.Now, 10))
	for _, c := range x.Cells {
		parts = append(parts, "c"+strconv.Itoa(*c))
	}
	if x.sharedSeq != [2]uint64{} {
		parts = append(parts, "s"+strconv.FormatUint(x.sharedSeq[0], 16)+strconv.FormatUint(x.sharedSeq[1], 16))
	}
	if x.KeyLast && x.last != nil {
		parts = append(parts, "last"+x.last.ID)
	}
	var k Thread
	for _, p := range parts {
		k.mix(p)
	}
	return [2]uint64{k.h1, k.h2}
}

func (x *Exec) sharedFingerprint() uint64 {
	h := uint64(14695981039346656037)
	mix := func(v uint64) { h = (h ^ v) * prime64 }
	for _, c := range x.chans {
		mix(uint64(len(c.buf)))
		mix(uint64(c.NSend))
		if c.closed {
			mix(1)
		}
	}
	for _, w := range x.wgs {
		mix(uint64(w.n))
	}
	for _, m := range x.mus {
		if m.held {
			mix(2)
		}
	}
	mix(uint64(len(x.Threads)))
	return h
}

// Run executes root under the chooser until quiescence.
func Run(root func(), ch Chooser, cfg func(*Exec)) *Exec {
	x := &Exec{parked: make(chan *Thread), chooser: ch, Horizon: 5000}
	if cfg != nil {
		cfg(x)
	}
	X = x
	for _, g := range globalChans {
		g.buf, g.closed, g.NRecv, g.NSend = nil, false, 0, 0
		x.chans = append(x.chans, g)
	}
	x.spawn(nil, root, "root")
	for {
		ts := x.enabled()
		if len(ts) == 0 {
			next := int64(-1)
			for _, t := range x.Threads {
				if !t.done && t.pending != nil && t.pending.kind == opSleep {
					if next < 0 || t.pending.wakeAt < next {
						next = t.pending.wakeAt
					}
				}
			}
			for _, tm := range x.timers {
				if !tm.fired && (next < 0 || tm.at < next) {
					next = tm.at
				}
			}
			if next < 0 {
				break
			}
			x.Now = next
			x.Steps++ // a periodic timer must not keep an execution alive for ever
			if x.Steps >= x.Horizon {
				x.HitHorizon = true
				break
			}
			x.tracef("clock -> %d\n", next)
			for _, tm := range x.timers {
				if !tm.fired && tm.at <= x.Now {
					if len(tm.ch.buf) < tm.ch.cap {
						tm.ch.buf = append(tm.ch.buf, tm.mk(tm.at))
					}
					if tm.period > 0 {
						tm.at += tm.period
					} else {
						tm.fired = true
					}
				}
			}
			x.last = nil
			continue
		}
		alone := x.last != nil
		for _, tr := range ts {
			alone = alone && tr.t == x.last
		}
		// "alone and getting nowhere": the shared objects (channel contents and closed flags, WaitGroup counters, locks)
		// have not changed while the thread took its steps. A thread that fills a buffer or drains one is alone too,
		// but it makes progress.
		if fp := x.sharedFingerprint(); alone && fp == x.soloFP {
			x.solo++
		} else {
			x.solo, x.soloFP = 0, fp
		}
		if x.Steps >= x.Horizon {
			x.HitHorizon = true
			if x.solo >= 1000 {
				timed := false
				for _, t := range x.Threads {
					timed = timed || (!t.done && t.pending != nil && t.pending.kind == opSleep)
				}
				for _, tm := range x.timers {
					timed = timed || !tm.fired
				}
				if !timed {
					x.Livelock = x.last.Site + " at " + x.last.pending.String()
				}
			}
			break
		}
		cost := make([]int, len(ts))
		if ts[0].t == x.last {
			for i, tr := range ts {
				if tr.t != x.last {
					cost[i] = 1
				}
			}
		}
		if x.ArmCost {
			for i := 1; i < len(ts); i++ {
				cost[i] = 1
			}
		}
		i := x.chooser.Choose(x, len(ts), cost)
		if i < 0 {
			x.Aborted = true
			break
		}
		tr := ts[i]
		x.last = tr.t
		x.apply(tr)
	}
	for _, t := range x.Threads {
		if !t.done && t.pending != nil {
			t.AtEnd = t.pending.String()
		}
	}
	x.Final = map[string]bool{}
	for _, w := range x.Watches {
		x.Final[w.Name] = w.F()
	}
	// teardown: unwind every thread that is still parked
	x.teardown = true
	for _, t := range x.Threads {
		if !t.done {
			x.cur = t
			t.wake <- struct{}{}
			x.wait()
		}
	}
	X = nil
	return x
}
