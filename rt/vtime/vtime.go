// Package vtime shims package time on the virtual clock of verif/rt.
package vtime

import (
	"time"

	"verif/rt"
)

type Duration = time.Duration
type Time = time.Time
type Month = time.Month
type Weekday = time.Weekday

const (
	Nanosecond  = time.Nanosecond
	Microsecond = time.Microsecond
	Millisecond = time.Millisecond
	Second      = time.Second
	Minute      = time.Minute
	Hour        = time.Hour
)

var epoch = time.Unix(0, 0).UTC()

func at(ns int64) Time { return epoch.Add(Duration(ns)) }

func Now() Time             { return at(rt.Now()) }
func Since(t Time) Duration { return Now().Sub(t) }
func Until(t Time) Duration { return t.Sub(Now()) }
func Sleep(d Duration)      { rt.Sleep(int64(d)) }
func Unix(s, ns int64) Time { return time.Unix(s, ns) }

func After(d Duration) *rt.Chan[Time] { return NewTimer(d).C }

// Timer mirrors time.Timer (C, Stop, Reset).
type Timer struct {
	C *rt.Chan[Time]
	t *rt.Timer[Time]
}

func NewTimer(d Duration) *Timer {
	t := rt.NewTimer(int64(d), 0, at)
	return &Timer{C: t.C, t: t}
}

func (t *Timer) Stop() bool            { return t.t.Stop() }
func (t *Timer) Reset(d Duration) bool { return t.t.Reset(int64(d)) }

// AfterFunc runs f in its own simulated goroutine once d has elapsed.
func AfterFunc(d Duration, f func()) *Timer {
	t := NewTimer(d)
	rt.Go("time.AfterFunc", func() {
		if _, ok := rt.Recv2(t.C); ok {
			f()
		}
	})
	return t
}

// Ticker mirrors time.Ticker; ticks are dropped when the receiver is slow, as in Go.
type Ticker struct {
	C *rt.Chan[Time]
	t *rt.Timer[Time]
}

func NewTicker(d Duration) *Ticker {
	if d <= 0 {
		panic("non-positive interval for NewTicker")
	}
	t := rt.NewTimer(int64(d), int64(d), at)
	return &Ticker{C: t.C, t: t}
}

func (t *Ticker) Stop()            { t.t.Stop() }
func (t *Ticker) Reset(d Duration) { t.t.Reset(int64(d)) }

func Tick(d Duration) *rt.Chan[Time] { return NewTicker(d).C }
