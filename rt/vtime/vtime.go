// Package vtime shims package time on the virtual clock of verif/rt.
package vtime

import (
	"time"

	"verif/rt"
)

type Duration = time.Duration
type Time = time.Time
type Month = time.Month
type Weekday = time.Weekday

const (
	Nanosecond  = time.Nanosecond
	Microsecond = time.Microsecond
	Millisecond = time.Millisecond
	Second      = time.Second
	Minute      = time.Minute
	Hour        = time.Hour
)

var epoch = time.Unix(0, 0).UTC()

func at(ns int64) Time { return epoch.Add(Duration(ns)) }

func Now() Time             { return at(rt.Now()) }
func Since(t Time) Duration { return Now().Sub(t) }
func Until(t Time) Duration { return t.Sub(Now()) }
func Sleep(d Duration)      { rt.Sleep(int64(d)) }
func Unix(s, ns int64) Time { return time.Unix(s, ns) }
func After(d Duration) *rt.Chan[Time] {
	if d < 0 {
		d = 0
	}
	return rt.After(int64(d), at(rt.Now()+int64(d)))
}

// Timer supports the subset NewTimer / C / Stop (Stop only reports; a stopped
// timer's channel simply is never read by well-formed code).
type Timer struct {
	C *rt.Chan[Time]
}

func NewTimer(d Duration) *Timer { return &Timer{C: After(d)} }
func (t *Timer) Stop() bool      { return t.C.Len() == 0 }

func AfterFunc(d Duration, f func()) *Timer {
	c := After(d)
	rt.Go("time.AfterFunc", func() { rt.Recv(c); f() })
	return &Timer{C: c}
}
