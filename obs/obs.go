// Package obs is the neutral description of one finished execution that the
// oracles look at. It is produced from the simulated runtime (exhaustive
// exploration) and from the real runtime (free-running conformance pass).
package obs

import (
	"fmt"
	"sort"
	"strings"
)

type Event struct {
	Time int64
	Kind string
	Args []any
}

// ThreadEnd is the terminal state of one thread (simulated runtime only).
type ThreadEnd struct {
	ID      string
	Site    string
	Lib     bool
	Blocked string // pending operation, "" if finished
	Panic   string // "" if none
}

type Obs struct {
	Sim     bool
	Logs    map[string][]Event // per kind; each kind is logged by one thread (or order is irrelevant)
	Threads []ThreadEnd
	Closed  map[string]bool // watched channels: closed at the end? (simulated runtime only)
	Horizon bool
}

func (o *Obs) Has(kind string) bool { return len(o.Logs[kind]) > 0 }
func (o *Obs) N(kind string) int    { return len(o.Logs[kind]) }

// Ints returns the first argument of every event of the kind.
func (o *Obs) Ints(kind string) []int {
	var r []int
	for _, e := range o.Logs[kind] {
		r = append(r, e.Args[0].(int))
	}
	return r
}

// Strs returns the printed first argument of every event of the kind.
func (o *Obs) Strs(kind string) []string {
	r := []string{}
	for _, e := range o.Logs[kind] {
		r = append(r, fmt.Sprint(e.Args[0]))
	}
	return r
}

// Arg returns argument j of the i-th event of the kind as int (-1 if absent).
func (o *Obs) Arg(kind string, i, j int) int {
	if i >= len(o.Logs[kind]) || j >= len(o.Logs[kind][i].Args) {
		return -1
	}
	return o.Logs[kind][i].Args[j].(int)
}

// LibPanic reports a panic that left a goroutine of the code under test.
func (o *Obs) LibPanic() string {
	for _, t := range o.Threads {
		if t.Lib && t.Panic != "" {
			return fmt.Sprintf("library goroutine %s panicked: %s", t.Site, t.Panic)
		}
	}
	return ""
}

// AnyPanic reports any panicked thread.
func (o *Obs) AnyPanic() string {
	for _, t := range o.Threads {
		if t.Panic != "" {
			return fmt.Sprintf("goroutine %s panicked: %s", t.Site, t.Panic)
		}
	}
	return ""
}

// LibBlocked lists library goroutines that are still alive at the end.
func (o *Obs) LibBlocked() []string {
	var r []string
	for _, t := range o.Threads {
		if t.Lib && t.Blocked != "" {
			r = append(r, t.Site+" blocked at "+t.Blocked)
		}
	}
	sort.Strings(r)
	return r
}

// EnvBlocked lists harness goroutines that are still alive at the end.
func (o *Obs) EnvBlocked() []string {
	var r []string
	for _, t := range o.Threads {
		if !t.Lib && t.Blocked != "" {
			r = append(r, t.Site+" blocked at "+t.Blocked)
		}
	}
	sort.Strings(r)
	return r
}

// Canon is a canonical printed form (used to count distinct outcomes).
func (o *Obs) Canon() string {
	var ks []string
	for k := range o.Logs {
		ks = append(ks, k)
	}
	sort.Strings(ks)
	var b strings.Builder
	for _, k := range ks {
		fmt.Fprintf(&b, "%s:", k)
		for _, e := range o.Logs[k] {
			fmt.Fprintf(&b, "%v@%d,", e.Args, e.Time)
		}
		b.WriteByte(';')
	}
	for _, t := range o.Threads {
		if t.Blocked != "" || t.Panic != "" {
			fmt.Fprintf(&b, "T%s:%s:%s;", t.ID, t.Blocked, t.Panic)
		}
	}
	return b.String()
}

// IsPrefix reports whether a is a prefix of b.
func IsPrefix(a, b []string) bool {
	if len(a) > len(b) {
		return false
	}
	for i := range a {
		if a[i] != b[i] {
			return false
		}
	}
	return true
}

// Equal compares two string lists.
func Equal(a, b []string) bool { return len(a) == len(b) && IsPrefix(a, b) }

// SubMultiset reports whether every element of a occurs in b at least as often.
func SubMultiset(a, b []string) bool {
	cnt := map[string]int{}
	for _, v := range b {
		cnt[v]++
	}
	for _, v := range a {
		cnt[v]--
		if cnt[v] < 0 {
			return false
		}
	}
	return true
}

// SameMultiset compares as multisets.
func SameMultiset(a, b []string) bool {
	return len(a) == len(b) && SubMultiset(a, b)
}

// IsSubsequence reports whether a is a subsequence of b.
func IsSubsequence(a, b []string) bool {
	j := 0
	for _, v := range b {
		if j < len(a) && a[j] == v {
			j++
		}
	}
	return j == len(a)
}

// Project is the part of an execution that is complete and thread-local once the given completion marks have
// been logged: for every mark "X-eof" (or "eof") the sequence of values logged under "X" (or "got") by the
// thread that then logged the mark. It is computed the same way from a terminal state of the exploration and
// from a finished run on the real runtime, and is what the outcome-conformance check compares.
func (o *Obs) Project(done []string) string {
	var kinds []string
	for _, d := range done {
		switch {
		case d == "eof":
			kinds = append(kinds, "got")
		case strings.HasSuffix(d, "-eof"):
			kinds = append(kinds, strings.TrimSuffix(d, "-eof"))
		}
	}
	sort.Strings(kinds)
	var b strings.Builder
	for _, k := range kinds {
		fmt.Fprintf(&b, "%s=%v;", k, o.Strs(k))
	}
	return b.String()
}

// NotClosed lists the watched channels that are still open, in a fixed order (oracle messages must not depend on
// map iteration order).
func (o *Obs) NotClosed() []string {
	var r []string
	for n, cl := range o.Closed {
		if !cl {
			r = append(r, n)
		}
	}
	sort.Strings(r)
	return r
}
