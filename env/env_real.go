//go:build !sim

// Package env is the harness's window on the runtime (real-runtime flavour,
// used by the free-running conformance / race pass).
package env

import (
	"runtime"
	"sync"
	"sync/atomic"
	"time"

	"verif/obs"
)

const Sim = false

var (
	mu    sync.Mutex
	logs  = map[string][]obs.Event{}
	start = time.Now()
)

// Reset clears the recorder before a run.
func Reset() {
	mu.Lock()
	logs = map[string][]obs.Event{}
	start = time.Now()
	mu.Unlock()
}

// Snapshot returns what has been logged so far.
func Snapshot() *obs.Obs {
	mu.Lock()
	defer mu.Unlock()
	o := &obs.Obs{Logs: map[string][]obs.Event{}}
	for k, v := range logs {
		o.Logs[k] = append([]obs.Event(nil), v...)
	}
	return o
}

func Log(kind string, args ...any) {
	mu.Lock()
	logs[kind] = append(logs[kind], obs.Event{Time: int64(time.Since(start)), Kind: kind, Args: args})
	mu.Unlock()
}

func Yield() { runtime.Gosched() }

type Shared struct{ v atomic.Int64 }

func (s *Shared) Add(d int) { s.v.Add(int64(d)) }
func (s *Shared) Load() int { return int(s.v.Load()) }

// WatchClosed is a no-op on the real runtime (closure is not observable without receiving).
func WatchClosed(name string, ch any) {}
