//go:build sim

// Package env is the harness's window on the runtime (simulated flavour).
package env

import "verif/rt"

// Sim reports whether the harness runs on the simulated runtime.
const Sim = true

// Log appends to the calling thread's own log (part of that thread's history).
func Log(kind string, args ...any) { rt.Log(kind, args...) }

// Yield is a scheduling point.
func Yield() { rt.Yield() }

// Shared is a counter read/written by several harness threads. It is part of
// the explored state; a Load is recorded in the reader's history.
type Shared struct {
	v   int
	reg bool
}

func (s *Shared) touch() {
	if !s.reg {
		s.reg = true
		rt.Cell(&s.v)
	}
}

func (s *Shared) Add(d int) { s.touch(); s.v += d }
func (s *Shared) Load() int { s.touch(); rt.Log("load", s.v); return s.v }
