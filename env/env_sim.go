//go:build sim

// Package env is the harness's window on the runtime (simulated flavour).
package env

import "verif/rt"

// Sim reports whether the harness runs on the simulated runtime.
const Sim = true

// Log appends to the calling thread's own log (part of that thread's history).
func Log(kind string, args ...any) { rt.Log(kind, args...) }

// Yield is a scheduling point.
func Yield() { rt.Yield() }

// Shared is a counter read/written by several harness threads. It is part of
// the explored state; a Load is recorded in the reader's history.
type Shared struct {
	v   int
	reg bool
}

func (s *Shared) touch() {
	if !s.reg {
		s.reg = true
		rt.Cell(&s.v)
	}
}

func (s *Shared) Add(d int) { s.touch(); s.v += d }
func (s *Shared) Load() int { s.touch(); rt.Log("load", s.v); return s.v }

// WatchClosed lets the oracle see, on the terminal state, whether ch (a channel
// returned by the code under test) has been closed.
func WatchClosed(name string, ch any) {
	c, ok := ch.(rt.ClosedFlag)
	if !ok {
		panic("env.WatchClosed: not a simulated channel")
	}
	rt.Watch(name, c.IsClosed)
}
