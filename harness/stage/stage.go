// Package stage is the closed system around one sequential pipe stage, written
// in plain Go against the public API. The same file runs on the real runtime
// and, translated by gosim, under the explorer.
//
// Logging conventions (env.Log kinds):
//
//	sent i        producer: send of element i completed      in-closed     producer closed the input
//	<out> v       consumer of output <out> received v        <out>-eof     that output was seen closed
//	err msg       error consumer received an error           err-eof       error channel seen closed
//	call x        the user function was invoked on x         cancel        the context was cancelled
package stage

import (
	"context"
	"errors"
	"fmt"
	"io"
	"time"

	"github.com/fogfish/golem/pipe/v2"
	"github.com/fogfish/golem/pure/monoid"
	"verif/env"
)

type Cfg struct {
	Stage       string
	K           int    // input elements 1..K
	Cap         int    // input channel capacity (fixes the output capacities); Emit/Unfold: their cap argument
	Mask        int    // bit x set: predicate true for x / function fails on x
	Mode        string // pure | lift | try
	N           int    // Take
	Cancel      bool   // free canceller thread
	CancelAfter int    // >0: the first consumer cancels after that many values (generators)
	Stop        int    // consumer of the first output: -1 drain, 0 absent, m take m then leave
	Stop2       int    // consumer of the second output (Partition)
	ErrRd       string // reader | stderr | none
	Inputs      []int  // Join: number of elements per input
	Ops         int    // Throttling
	Late        int    // >0: the consumer of the first output sleeps that long (virtual ns) before its receive number LateAt (from 0)
	LateAt      int
	Dup         bool // Join: the (single) input channel is passed twice
	Interval    int  // Throttling: interval in ticks, default 4; Emit: frequency in ticks, default 3; -1 stands for 0 ("no pacing")
	FailFrom    int  // Emit: >0: the function fails on every index >= FailFrom, for ever
	Idle        bool // the producer goes idle after its last element instead of closing the input
	Any         bool // the element type is `any` and every other element is a nil interface value
	Background  bool // the stage runs under context.Background() (never cancelled, Done() is nil)
	PreCancel   bool // the context is already cancelled when the stage is created
}

// Aff is an affine map x -> A*x+B; composition is a non-commutative monoid with identity {1,0}.
type Aff struct{ A, B int }

func Bit(m, i int) bool { return m&(1<<i) != 0 }

var errFail = errors.New("fail")

// Fail is the error returned for element x. Some of the errors wrap context.Canceled / DeadlineExceeded: a fault of
// the user function that happens to be such an error is a fault like any other while the pipeline's own context is live.
func Fail(x int) error {
	switch {
	case x == 1 || x == 7:
		// a composite error (several causes joined): still ONE error of ONE element
		return errors.Join(fmt.Errorf("fail%d", x), io.ErrUnexpectedEOF, fmt.Errorf("a third cause of fail%d", x))
	case x%2 == 0:
		return TrailErr{Msg: fmt.Sprintf("fail%d", x), Trail: []int{x}, Cause: context.Canceled}
	case x%3 == 0:
		return TrailErr{Msg: fmt.Sprintf("fail%d", x), Trail: []int{x}, Cause: context.DeadlineExceeded}
	}
	return fmt.Errorf("fail%d", x)
}

// TrailErr is an error VALUE (not a pointer) that holds a slice: two of them cannot be compared with == (it panics),
// and it wraps the context error of some other context.
type TrailErr struct {
	Msg   string
	Trail []int
	Cause error
}

func (e TrailErr) Error() string { return e.Msg + ": " + e.Cause.Error() }
func (e TrailErr) Unwrap() error { return e.Cause }

// consume starts the consumer of one output; lateAt = [ns, k]: it sleeps ns (virtual) before its receive number k.
func consume[T any](name string, ch <-chan T, stop int, after int, cancel func(), lateAt ...int) {
	env.WatchClosed(name, ch)
	if stop == 0 {
		return
	}
	lateNs, lateK := 0, 0
	if len(lateAt) == 2 {
		lateNs, lateK = lateAt[0], lateAt[1]
	}
	go func() {
		n := 0
		for {
			if lateNs > 0 && n == lateK {
				time.Sleep(time.Duration(lateNs))
			}
			x, ok := <-ch
			if !ok {
				break
			}
			env.Log(name, x)
			n++
			if after > 0 && n == after {
				env.Log("cancel")
				cancel()
			}
			if stop > 0 && n == stop {
				return
			}
		}
		env.Log(name + "-eof")
	}()
}

func errs(c Cfg, ch <-chan error) {
	env.WatchClosed("err", ch)
	go func() {
		for e := range ch {
			env.Log("err", e.Error())
		}
		env.Log("err-eof")
	}()
}

func Scenario(c Cfg) {
	if c.Any {
		anyScenario(c)
		return
	}
	ctx, cancel := context.WithCancel(context.Background())
	if c.Background {
		ctx, cancel = context.Background(), func() {}
	}
	if c.PreCancel {
		env.Log("cancel")
		cancel()
	}
	var closed env.Shared
	mkin := func(tag string, from, n int) <-chan int {
		in := make(chan int, c.Cap)
		go func() {
			for i := from; i < from+n; i++ {
				select {
				case in <- i:
					env.Log(tag, i)
				case <-ctx.Done():
					closed.Add(1)
					close(in)
					env.Log("in-closed")
					return
				}
			}
			if c.Idle {
				env.Log("idle")
				return
			}
			closed.Add(1)
			close(in)
			env.Log("in-closed")
		}()
		return in
	}
	pred := func(x int) (bool, error) { env.Log("call", x); return Bit(c.Mask, x), nil }
	fn := func(x int) (int, error) {
		env.Log("call", x)
		if (x < 62 && Bit(c.Mask, x)) || (c.FailFrom > 0 && x >= c.FailFrom) {
			return 0, Fail(x)
		}
		return x * 10, nil
	}
	lift := func() pipe.F[int, int] {
		switch c.Mode {
		case "try":
			return pipe.Try(fn)
		case "pure":
			return pipe.Pure(func(x int) int { env.Log("call", x); return x * 10 })
		}
		return pipe.Lift(fn)
	}
	// out2 wires value and error channels to their consumers (harness reader or the library's StdErr)
	out2 := func(out <-chan int, exx <-chan error) {
		if c.ErrRd == "stderr" {
			env.WatchClosed("err", exx)
			consume("got", pipe.StdErr(out, exx), c.Stop, c.CancelAfter, cancel, c.Late, c.LateAt)
			return
		}
		consume("got", out, c.Stop, c.CancelAfter, cancel, c.Late, c.LateAt)
		if c.ErrRd == "none" { // nobody ever reads the error channel
			env.WatchClosed("err", exx)
			return
		}
		errs(c, exx)
	}
	// a stateful predicate (true on its odd-numbered calls) and an input with runs of equal elements: the functions of this
	// library's stages need not be pure, and the elements need not be distinct
	calls := 0
	alt := func(x int) (bool, error) { calls++; env.Log("call", x); return calls%2 == 1, nil }
	first2 := func(x int) (bool, error) { calls++; env.Log("call", x); return calls <= 2, nil }
	mkinRep := func(n int) <-chan int {
		in := make(chan int, c.Cap)
		go func() {
			for i := 2; i < 2+2*n; i++ {
				select {
				case in <- i / 2: // 1 1 2 2 3 3 ...
					env.Log("sent", i/2)
				case <-ctx.Done():
					close(in)
					env.Log("in-closed")
					return
				}
			}
			closed.Add(1)
			close(in)
			env.Log("in-closed")
		}()
		return in
	}
	switch c.Stage {
	case "filter-alt":
		consume("got", pipe.Filter(ctx, mkin("sent", 1, c.K), pipe.Lift(alt)), c.Stop, 0, cancel)
	case "takewhile-alt":
		consume("got", pipe.TakeWhile(ctx, mkin("sent", 1, c.K), pipe.Lift(first2)), c.Stop, 0, cancel)
	case "partition-alt":
		l, r := pipe.Partition(ctx, mkin("sent", 1, c.K), pipe.Lift(alt))
		consume("l", l, c.Stop, 0, cancel, c.Late, c.LateAt)
		consume("r", r, c.Stop2, 0, cancel)
	case "foreach-rep":
		consume("done", pipe.ForEach(ctx, mkinRep(c.K), pipe.Pure(func(x int) int { env.Log("call", x); return x })), -1, 0, cancel)
	case "map-rep":
		// the function numbers its calls: the images of a run of equal elements are as many different numbers
		out2(pipe.Map(ctx, mkinRep(c.K), pipe.Pure(func(x int) int { calls++; env.Log("call", x); return calls })))
	case "map":
		out2(pipe.Map(ctx, mkin("sent", 1, c.K), lift()))
	case "map2":
		// one F value shared by two stages: the first one fails on the masked elements, the second one runs over
		// elements that never fail and must be unaffected by what happened in the first
		f := lift()
		out2(pipe.Map(ctx, mkin("sent", 1, c.K), f))
		o2, e2 := pipe.Map(ctx, mkin("sentb", 33, c.K), f)
		consume("gotb", o2, -1, 0, cancel)
		env.WatchClosed("errb", e2)
		go func() {
			for e := range e2 {
				env.Log("errb", e.Error())
			}
			env.Log("errb-eof")
		}()
	case "fmap":
		arrow := func(ctx context.Context, x int, out chan<- int) error {
			env.Log("call", x)
			for j := 0; j < x%3; j++ {
				select {
				case out <- x*10 + j:
				case <-ctx.Done():
					return nil
				}
			}
			if (x < 62 && Bit(c.Mask, x)) || (c.FailFrom > 0 && x >= c.FailFrom) {
				return Fail(x)
			}
			return nil
		}
		var ff pipe.FF[int, int]
		if c.Mode == "try" {
			ff = pipe.TryF(arrow)
		} else {
			ff = pipe.LiftF(arrow)
		}
		out2(pipe.FMap(ctx, mkin("sent", 1, c.K), ff))
	case "filter":
		consume("got", pipe.Filter(ctx, mkin("sent", 1, c.K), pipe.Lift(pred)), c.Stop, 0, cancel, c.Late, c.LateAt)
	case "takewhile":
		consume("got", pipe.TakeWhile(ctx, mkin("sent", 1, c.K), pipe.Lift(pred)), c.Stop, 0, cancel, c.Late, c.LateAt)
	case "take":
		consume("got", pipe.Take(ctx, mkin("sent", 1, c.K), c.N), c.Stop, 0, cancel, c.Late, c.LateAt)
	case "partition":
		l, r := pipe.Partition(ctx, mkin("sent", 1, c.K), pipe.Lift(pred))
		consume("l", l, c.Stop, 0, cancel, c.Late, c.LateAt)
		consume("r", r, c.Stop2, 0, cancel)
	case "foreach":
		if c.Mode == "lift" || c.Mode == "try" { // a visitor that fails on the masked elements: ForEach has no error output, the visit goes on
			consume("done", pipe.ForEach(ctx, mkin("sent", 1, c.K), lift()), -1, 0, cancel)
			break
		}
		consume("done", pipe.ForEach(ctx, mkin("sent", 1, c.K), pipe.Pure(func(x int) int { env.Log("call", x); return x })), -1, 0, cancel)
	case "void":
		consume("done", pipe.Void(ctx, mkin("sent", 1, c.K)), -1, 0, cancel)
	case "fold":
		m := monoid.FromOp(Aff{1, 0}, func(f, g Aff) Aff { return Aff{f.A * g.A, g.A*f.B + g.B} })
		in := make(chan Aff, c.Cap)
		go func() {
			for i := 1; i <= c.K; i++ {
				select {
				case in <- Aff{i + 1, 1}: // x -> (i+1)x+1: no two of these maps commute (x -> (i+1)x+i would: all of them fix -1)
					env.Log("sent", i)
				case <-ctx.Done():
					close(in)
					env.Log("in-closed")
					return
				}
			}
			close(in)
			env.Log("in-closed")
		}()
		consume("got", pipe.Fold(ctx, in, m), c.Stop, 0, cancel, c.Late, c.LateAt)
	case "seqtake":
		// Take over Seq: the first n of K arguments; whatever Seq does with a long argument list, nothing of the library
		// may be left running once the consumer has its values and the context is cancelled
		xs := make([]int, c.K)
		for i := range xs {
			xs[i] = i + 1
		}
		out := pipe.Take(ctx, pipe.Seq(xs...), c.N)
		env.WatchClosed("got", out)
		go func() {
			for x := range out {
				env.Log("got", x)
			}
			env.Log("got-eof")
			env.Log("cancel")
			cancel()
		}()
	case "fold100":
		// an "empty" element that is not neutral: the statement says the fold starts from the monoid's empty element
		m := monoid.FromOp(100, func(a, b int) int { return a*2 + b })
		consume("got", pipe.Fold(ctx, mkin("sent", 1, c.K), m), c.Stop, 0, cancel, c.Late, c.LateAt)
	case "seq":
		xs := make([]int, c.K)
		for i := range xs {
			xs[i] = i + 1
		}
		ch := pipe.Seq(xs...)
		for i := range xs { // the caller reuses its slice after the call
			xs[i] = -1
		}
		for _, x := range pipe.ToSeq(ch) {
			env.Log("got", x)
		}
		env.Log("got-eof")
	case "join":
		var ins []<-chan int
		for i, n := range c.Inputs {
			ins = append(ins, mkin(fmt.Sprintf("sent%d", i), 10*(i+1)+1, n))
		}
		if c.Dup && len(ins) == 1 {
			ins = append(ins, ins[0]) // the same channel twice: its elements still arrive once each, nothing else does
		}
		out := pipe.Join(ctx, ins...)
		env.WatchClosed("got", out)
		// the caller reuses its slice after the call: Join must have taken the channels it was given
		for i := range ins {
			decoy := make(chan int, 1)
			decoy <- 900 + i
			close(decoy)
			ins[i] = decoy
		}
		if c.Stop != 0 {
			go func() {
				n := 0
				for {
					if c.Late > 0 && n == c.LateAt {
						time.Sleep(time.Duration(c.Late))
					}
					x, ok := <-out
					if !ok {
						break
					}
					env.Log("got", x)
					n++
					if c.Stop > 0 && n == c.Stop {
						return
					}
				}
				env.Log("got-eof", closed.Load())
			}()
		}
	case "unfold":
		out2(pipe.Unfold(ctx, c.Cap, 1, func() pipe.F[int, int] {
			f := func(x int) (int, error) {
				env.Log("call", x)
				if Bit(c.Mask, x) {
					return 0, Fail(x)
				}
				return x + 1, nil
			}
			if c.Mode == "try" {
				return pipe.Try(f)
			}
			return pipe.Lift(f)
		}()))
	case "emit":
		fq := 3
		if c.Interval != 0 { // Interval -1: a frequency of zero ("no pacing")
			fq = max(c.Interval, 0)
		}
		out2(pipe.Emit(ctx, c.Cap, time.Duration(fq)*time.Nanosecond, lift()))
	case "throttle":
		iv := 4
		if c.Interval != 0 {
			iv = c.Interval
		}
		if iv < 0 {
			iv = 0
		}
		consume("got", pipe.Throttling(ctx, mkin("sent", 1, c.K), c.Ops, time.Duration(iv)*time.Nanosecond), c.Stop, 0, cancel, c.Late, c.LateAt)
	default:
		panic("unknown stage " + c.Stage)
	}
	if c.Cancel {
		go func() { env.Log("cancel"); cancel() }()
	}
	_ = errFail
}

// AnyElem is element i (1-based) of the `any`-typed scenarios: odd positions hold a nil interface value.
func AnyElem(i int) any {
	if i%2 == 1 {
		return nil
	}
	return i
}

// anyScenario runs a stage instantiated at element type `any` with functions that keep every element
// (identity, always-true predicate): the output must be the input, nil interface values included.
func anyScenario(c Cfg) {
	ctx, cancel := context.WithCancel(context.Background())
	mkin := func(n int) <-chan any {
		in := make(chan any, c.Cap)
		go func() {
			for i := 1; i <= n; i++ {
				select {
				case in <- AnyElem(i):
					env.Log("sent", i)
				case <-ctx.Done():
					close(in)
					return
				}
			}
			close(in)
			env.Log("in-closed")
		}()
		return in
	}
	id := pipe.Pure(func(x any) any { return x })
	yes := pipe.Pure(func(x any) bool { return true })
	drain := func(name string, ch <-chan any) { consume(name, ch, -1, 0, cancel) }
	switch c.Stage {
	case "map":
		out, exx := pipe.Map(ctx, mkin(c.K), id)
		drain("got", out)
		errs(c, exx)
	case "fmap":
		out, exx := pipe.FMap(ctx, mkin(c.K), pipe.LiftF(func(ctx context.Context, x any, out chan<- any) error {
			select {
			case out <- x:
			case <-ctx.Done():
			}
			return nil
		}))
		drain("got", out)
		errs(c, exx)
	case "filter":
		drain("got", pipe.Filter(ctx, mkin(c.K), yes))
	case "takewhile":
		drain("got", pipe.TakeWhile(ctx, mkin(c.K), yes))
	case "take":
		drain("got", pipe.Take(ctx, mkin(c.K), c.N))
	case "partition":
		l, r := pipe.Partition(ctx, mkin(c.K), yes)
		drain("l", l)
		drain("r", r)
	case "join":
		// input 0 carries nil, 12, 13, ...; the other inputs carry their usual distinct integers
		var ins []<-chan any
		for i, n := range c.Inputs {
			in := make(chan any, c.Cap)
			ins = append(ins, in)
			go func() {
				for j := 0; j < n; j++ {
					var v any = 10*(i+1) + 1 + j
					if i == 0 && j == 0 {
						v = nil
					}
					select {
					case in <- v:
					case <-ctx.Done():
						close(in)
						return
					}
				}
				close(in)
			}()
		}
		out := pipe.Join(ctx, ins...)
		env.WatchClosed("got", out)
		go func() {
			for x := range out {
				env.Log("got", x)
			}
			env.Log("got-eof", len(c.Inputs))
		}()
	case "throttle":
		drain("got", pipe.Throttling(ctx, mkin(c.K), 1, 4*time.Nanosecond))
	case "seq":
		xs := make([]any, c.K)
		for i := range xs {
			xs[i] = AnyElem(i + 1)
		}
		for _, x := range pipe.ToSeq(pipe.Seq(xs...)) {
			env.Log("got", x)
		}
		env.Log("got-eof")
	case "unfold":
		// the seed alternates between a nil interface value and 1
		out, exx := pipe.Unfold(ctx, c.Cap, any(nil), pipe.Pure(func(x any) any {
			if x == nil {
				return 1
			}
			return nil
		}))
		consume("got", out, c.K+1, c.K, cancel)
		errs(c, exx)
	default:
		panic("unknown any-stage " + c.Stage)
	}
}
