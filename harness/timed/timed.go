// Package timed is the closed system around the time-dependent stages (Emit,
// Unfold with paced consumers, Throttling), plain Go. Under the explorer all
// time.* calls run on the virtual clock; every env.Log entry carries the
// virtual time at which it was made.
package timed

import (
	"context"
	"fmt"
	"time"

	"github.com/fogfish/golem/pipe/v2"
	"verif/env"
)

type Cfg struct {
	Kind       string // emit | unfold | throttle
	Cap        int    // Emit/Unfold: cap argument; Throttling: capacity of the input channel
	Freq       int    // Emit: frequency in ticks (1 tick = 1ns of virtual time)
	Mode       string // Emit: pure | lift | try
	Mask       int    // Emit: failing indices
	Step       string // Unfold: inc | dbl | const
	ConsGaps   []int  // consumer: sleep ConsGaps[i] before the i-th receive; after the script it cancels (generators) or keeps draining with gap 0 (throttle)
	Drain      bool   // generator consumer: after its script and its cancel it keeps receiving until the channel closes
	CancelAt   int    // >=0: a canceller thread sleeps that long, then cancels
	Ops        int    // Throttling
	Interval   int    // Throttling, ticks
	K          int    // Throttling: number of input elements 0..K-1
	ProdGap    int    // Throttling: producer sleeps this long before every send
	NoErr      bool   // generators: nobody reads the error channel
	Timeout    int    // >0: the context carries a deadline that many ticks away (instead of being cancelled by a thread)
	Background bool   // the stage runs under context.Background(): never cancelled, Done() is nil
	PreCancel  bool   // the context is already cancelled when the generator is created (nobody receives)
}

func Bit(m, i int) bool { return m&(1<<i) != 0 }

// Fail: some of the faults wrap context errors of some other context (a fault like any other while this pipeline's
// context is live).
func Fail(i int) error {
	switch {
	case i%2 == 0:
		return fmt.Errorf("fail%d: %w", i, context.DeadlineExceeded)
	case i%3 == 0:
		return fmt.Errorf("fail%d: %w", i, context.Canceled)
	}
	return fmt.Errorf("fail%d", i)
}

func tick(n int) time.Duration { return time.Duration(n) }

func Scenario(c Cfg) {
	ctx, cancel := context.WithCancel(context.Background())
	if c.Background {
		ctx, cancel = context.Background(), func() {}
	}
	if c.Timeout > 0 {
		ctx, cancel = context.WithTimeout(context.Background(), tick(c.Timeout))
		go func() {
			<-ctx.Done()
			if ctx.Err() == context.DeadlineExceeded { // not the consumer's own cancel at the end of a complete run
				env.Log("cancel") // stamped with the instant of the deadline
			}
		}()
	}
	if c.PreCancel {
		env.Log("cancel")
		cancel()
	}
	// generator consumer: follows its script, then cancels and leaves
	genConsumer := func(out <-chan int) {
		if c.PreCancel {
			return
		}
		go func() {
			for _, g := range c.ConsGaps {
				if g > 0 {
					time.Sleep(tick(g))
				}
				x, ok := <-out
				if !ok {
					env.Log("got-eof")
					return
				}
				env.Log("got", x)
			}
			env.Log("cancel")
			cancel()
			if c.Drain {
				for x := range out {
					env.Log("got", x)
				}
				env.Log("got-eof")
			}
		}()
	}
	errReader := func(exx <-chan error) {
		go func() {
			for e := range exx {
				env.Log("err", e.Error())
			}
			env.Log("err-eof")
		}()
	}
	switch c.Kind {
	case "emit":
		fn := func(i int) (int, error) {
			env.Log("call", i)
			if c.Mode != "pure" && Bit(c.Mask, i) {
				return 0, Fail(i)
			}
			return i * 10, nil
		}
		var f pipe.F[int, int]
		switch c.Mode {
		case "try":
			f = pipe.Try(fn)
		case "lift":
			f = pipe.Lift(fn)
		default:
			f = pipe.Pure(func(i int) int { v, _ := fn(i); return v })
		}
		out, exx := pipe.Emit(ctx, c.Cap, tick(c.Freq), f)
		env.WatchClosed("got", out)
		env.WatchClosed("err", exx)
		genConsumer(out)
		if !c.NoErr {
			errReader(exx)
		}
	case "unfold":
		step := func(x int) int {
			env.Log("call", x)
			switch c.Step {
			case "dbl":
				return 2 * x
			case "const":
				return x
			}
			return x + 1
		}
		out, exx := pipe.Unfold(ctx, c.Cap, 1, pipe.Pure(step))
		env.WatchClosed("got", out)
		env.WatchClosed("err", exx)
		genConsumer(out)
		if !c.NoErr {
			errReader(exx)
		}
	case "throttle":
		in := make(chan int, c.Cap)
		go func() {
			for i := 0; i < c.K; i++ {
				if c.ProdGap > 0 {
					time.Sleep(tick(c.ProdGap))
				}
				select {
				case in <- i:
				case <-ctx.Done():
					close(in)
					return
				}
			}
			close(in)
			env.Log("in-closed")
		}()
		out := pipe.Throttling(ctx, in, c.Ops, tick(c.Interval))
		env.WatchClosed("got", out)
		go func() {
			n := 0
			for {
				if n < len(c.ConsGaps) && c.ConsGaps[n] > 0 {
					time.Sleep(tick(c.ConsGaps[n]))
				}
				x, ok := <-out
				if !ok {
					env.Log("got-eof")
					if c.CancelAt < 0 {
						env.Log("cancel-end")
						cancel() // lets the pacer go, so that the execution ends
					}
					return
				}
				env.Log("got", x)
				n++
			}
		}()
	default:
		panic("unknown kind " + c.Kind)
	}
	if c.CancelAt >= 0 {
		go func() {
			if c.CancelAt > 0 {
				time.Sleep(tick(c.CancelAt))
			}
			env.Log("cancel")
			cancel()
		}()
	}
}
