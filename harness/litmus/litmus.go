// Package litmus is a suite of tiny concurrent programs, each returning a
// printable outcome. They are explored exhaustively on the simulated runtime
// (all outcomes S) and run many times on the real runtime (observed outcomes
// R); the self-test requires R to be a subset of S. Timed programs run inside a
// testing/synctest bubble on the real runtime, whose clock rule (time advances
// only when every goroutine is blocked) is the rule of the simulated clock.
package litmus

import (
	"context"
	"fmt"
	"runtime"
	"sort"
	"strings"
	"sync"
	"sync/atomic"
	"time"
)

type Program struct {
	Name  string
	Timed bool
	F     func() string
}

func safe(f func()) (msg string) {
	defer func() {
		if r := recover(); r != nil {
			msg = fmt.Sprint(r)
		}
	}()
	f()
	return "ok"
}

func collect(n int, ch chan string) string {
	var out []string
	for i := 0; i < n; i++ {
		out = append(out, <-ch)
	}
	return strings.Join(out, "")
}

// litmusSem is a package-level channel (made at init time, outside any execution) used as a semaphore.
var litmusSem = make(chan struct{}, 1)

var Programs = []Program{
	{"package-level channel as a semaphore", false, func() string {
		res := make(chan string, 2)
		for _, name := range []string{"a", "b"} {
			go func() {
				litmusSem <- struct{}{}
				res <- name
				<-litmusSem
			}()
		}
		return <-res + <-res + fmt.Sprint(len(litmusSem) <= 1)
	}},
	{"unbuffered ping", false, func() string {
		c := make(chan int)
		go func() { c <- 1 }()
		return fmt.Sprint(<-c)
	}},
	{"two senders one buffered channel", false, func() string {
		c := make(chan string, 1)
		go func() { c <- "a" }()
		go func() { c <- "b" }()
		return <-c + <-c
	}},
	{"select over two ready channels", false, func() string {
		a, b := make(chan int, 1), make(chan int, 1)
		a <- 1
		b <- 2
		select {
		case <-a:
			return "a"
		case <-b:
			return "b"
		}
	}},
	{"select default nothing ready", false, func() string {
		a := make(chan int)
		select {
		case <-a:
			return "a"
		default:
			return "default"
		}
	}},
	{"select default racing sender", false, func() string {
		a := make(chan int, 1)
		done := make(chan bool)
		go func() { a <- 1; done <- true }()
		r := "default"
		select {
		case <-a:
			r = "a"
		default:
		}
		<-done
		return r
	}},
	{"receive from closed channel", false, func() string {
		c := make(chan int, 1)
		c <- 7
		close(c)
		v1, ok1 := <-c
		v2, ok2 := <-c
		return fmt.Sprint(v1, ok1, v2, ok2)
	}},
	{"close wakes blocked receiver", false, func() string {
		c := make(chan int)
		res := make(chan string)
		go func() { _, ok := <-c; res <- fmt.Sprint(ok) }()
		close(c)
		return <-res
	}},
	{"range until close", false, func() string {
		c := make(chan int)
		go func() { c <- 1; c <- 2; close(c) }()
		s := ""
		for v := range c {
			s += fmt.Sprint(v)
		}
		return s
	}},
	{"send on closed channel", false, func() string {
		c := make(chan int, 1)
		close(c)
		return safe(func() { c <- 1 })
	}},
	{"close of closed channel", false, func() string {
		c := make(chan int)
		close(c)
		return safe(func() { close(c) })
	}},
	{"close of nil channel", false, func() string {
		var c chan int
		return safe(func() { close(c) })
	}},
	{"nil channel in select", false, func() string {
		var n chan int
		b := make(chan int, 1)
		b <- 2
		select {
		case <-n:
			return "nil"
		case n <- 1:
			return "nilsend"
		case <-b:
			return "b"
		}
	}},
	{"waitgroup joins two goroutines", false, func() string {
		var wg sync.WaitGroup
		c := make(chan string, 2)
		wg.Add(2)
		go func() { defer wg.Done(); c <- "x" }()
		go func() { defer wg.Done(); c <- "y" }()
		wg.Wait()
		return fmt.Sprint(len(c), cap(c)) + collect(2, c)
	}},
	{"two receivers one sender", false, func() string {
		c := make(chan int)
		res := make(chan string)
		stop := make(chan bool)
		recv := func(name string) {
			select {
			case <-c:
				res <- name
			case <-stop:
				res <- ""
			}
		}
		go recv("r1")
		go recv("r2")
		c <- 1
		first := <-res
		close(stop)
		return first + <-res
	}},
	{"buffered channel is FIFO", false, func() string {
		c := make(chan int, 2)
		c <- 1
		c <- 2
		return fmt.Sprint(<-c, <-c, len(c))
	}},
	{"select send or receive", false, func() string {
		a, b := make(chan int, 1), make(chan int, 1)
		b <- 9
		select {
		case a <- 1:
			return "sent"
		case <-b:
			return "received"
		}
	}},
	{"two senders unbuffered one receiver", false, func() string {
		c := make(chan string)
		go func() { c <- "a" }()
		go func() { c <- "b" }()
		return <-c + <-c
	}},
	{"close while blocked in select", false, func() string {
		c, other := make(chan int), make(chan int)
		res := make(chan string)
		go func() {
			select {
			case _, ok := <-c:
				res <- fmt.Sprint("c", ok)
			case <-other:
				res <- "other"
			}
		}()
		close(c)
		return <-res
	}},
	{"blocked send completes when receiver arrives, close after", false, func() string {
		c := make(chan int)
		res := make(chan string)
		go func() { res <- safe(func() { c <- 1 }) }()
		v := <-c
		close(c)
		return fmt.Sprint(v) + <-res
	}},
	{"sender blocked on full buffer panics on close", false, func() string {
		c := make(chan int, 1)
		c <- 0
		started := make(chan bool)
		res := make(chan string)
		go func() { started <- true; res <- safe(func() { c <- 1 }) }()
		<-started
		close(c)
		r := <-res
		n := 0
		for range c {
			n++
		}
		return r + fmt.Sprint(n)
	}},
	{"mutex protected counter", false, func() string {
		var mu sync.Mutex
		var wg sync.WaitGroup
		n := 0
		for i := 0; i < 2; i++ {
			wg.Add(1)
			go func() { defer wg.Done(); mu.Lock(); n++; mu.Unlock() }()
		}
		wg.Wait()
		return fmt.Sprint(n)
	}},
	{"once", false, func() string {
		var once sync.Once
		var wg sync.WaitGroup
		c := make(chan int, 2)
		for i := 0; i < 2; i++ {
			wg.Add(1)
			go func() { defer wg.Done(); once.Do(func() { c <- 1 }) }()
		}
		wg.Wait()
		return fmt.Sprint(len(c))
	}},
	{"cancel against data", false, func() string {
		ctx, cancel := context.WithCancel(context.Background())
		c := make(chan int, 1)
		c <- 1
		cancel()
		select {
		case <-c:
			return "data"
		case <-ctx.Done():
			return "done"
		}
	}},
	{"cancel wakes a blocked select", false, func() string {
		ctx, cancel := context.WithCancel(context.Background())
		c := make(chan int)
		res := make(chan string)
		go func() {
			select {
			case <-c:
				res <- "data"
			case <-ctx.Done():
				res <- "done:" + fmt.Sprint(ctx.Err())
			}
		}()
		cancel()
		return <-res
	}},
	{"three goroutines through a pipeline", false, func() string {
		a, b := make(chan int), make(chan int)
		go func() { a <- 1; a <- 2; close(a) }()
		go func() {
			for v := range a {
				b <- v * 10
			}
			close(b)
		}()
		var out []string
		for v := range b {
			out = append(out, fmt.Sprint(v))
		}
		return strings.Join(out, ",")
	}},
	{"results in completion order", false, func() string {
		c := make(chan string, 3)
		for _, n := range []string{"a", "b", "c"} {
			n := n
			go func() { c <- n }()
		}
		r := []string{<-c, <-c, <-c}
		got := strings.Join(r, "")
		sort.Strings(r)
		return got + "/" + strings.Join(r, "")
	}},
	// ---- timed programs (virtual clock / synctest bubble) ----
	{"earlier timer wins", true, func() string {
		a, b := time.After(2*time.Millisecond), time.After(3*time.Millisecond)
		select {
		case <-a:
			return "2"
		case <-b:
			return "3"
		}
	}},
	{"sleepers wake in deadline order", true, func() string {
		c := make(chan string, 2)
		go func() { time.Sleep(2 * time.Millisecond); c <- "b" }()
		go func() { time.Sleep(1 * time.Millisecond); c <- "a" }()
		return <-c + <-c
	}},
	{"equal deadlines wake in either order", true, func() string {
		c := make(chan string, 2)
		go func() { time.Sleep(time.Millisecond); c <- "x" }()
		go func() { time.Sleep(time.Millisecond); c <- "y" }()
		return <-c + <-c
	}},
	{"ready channel beats a timer", true, func() string {
		c := make(chan int, 1)
		c <- 1
		t := time.After(time.Millisecond)
		time.Sleep(0)
		select {
		case <-c:
			return "data"
		case <-t:
			return "timer"
		}
	}},
	{"elapsed time", true, func() string {
		t0 := time.Now()
		time.Sleep(5 * time.Millisecond)
		<-time.After(2 * time.Millisecond)
		return fmt.Sprint(time.Since(t0))
	}},
	{"stopped timer does not fire", true, func() string {
		t := time.NewTimer(time.Millisecond)
		stopped := t.Stop()
		select {
		case <-t.C:
			return fmt.Sprint(stopped, "fired")
		case <-time.After(3 * time.Millisecond):
			return fmt.Sprint(stopped, "quiet")
		}
	}},
	{"reset timer fires at the new deadline", true, func() string {
		t0 := time.Now()
		t := time.NewTimer(10 * time.Millisecond)
		t.Reset(2 * time.Millisecond)
		<-t.C
		return fmt.Sprint(time.Since(t0))
	}},
	{"ticker ticks", true, func() string {
		t0 := time.Now()
		tk := time.NewTicker(2 * time.Millisecond)
		<-tk.C
		<-tk.C
		<-tk.C
		tk.Stop()
		return fmt.Sprint(time.Since(t0))
	}},
	{"sleep against cancel", true, func() string {
		ctx, cancel := context.WithCancel(context.Background())
		go func() { time.Sleep(2 * time.Millisecond); cancel() }()
		select {
		case <-ctx.Done():
			return "cancelled"
		case <-time.After(3 * time.Millisecond):
			return "timeout"
		}
	}},
	{"timeout context", true, func() string {
		ctx, cancel := context.WithTimeout(context.Background(), 2*time.Millisecond)
		defer cancel()
		t0 := time.Now()
		<-ctx.Done()
		return fmt.Sprint(time.Since(t0), ctx.Err())
	}},
	{"nil interface values through channels", false, func() string {
		c := make(chan any, 2)
		u := make(chan error)
		c <- nil
		c <- 1
		go func() { u <- nil }()
		a, ok := <-c
		b := <-c
		var e error
		select {
		case e = <-u:
		}
		return fmt.Sprint(a, ok, b, e == nil)
	}},
	{"atomic counter without a lock", false, func() string {
		var n atomic.Int32
		var plain int32
		done := make(chan bool)
		for i := 0; i < 2; i++ {
			go func() {
				n.Add(1)
				v := atomic.LoadInt32(&plain)
				atomic.StoreInt32(&plain, v+1) // not atomic as a whole: an increment can be lost
				done <- true
			}()
		}
		<-done
		<-done
		return fmt.Sprint(n.Load(), atomic.LoadInt32(&plain))
	}},
	{"compare and swap elects one", false, func() string {
		var flag atomic.Bool
		res := make(chan string, 2)
		for _, name := range []string{"a", "b"} {
			go func() {
				if flag.CompareAndSwap(false, true) {
					res <- name
				} else {
					res <- "-"
				}
			}()
		}
		x, y := <-res, <-res
		return x + y
	}},
	{"condition variable hand-off", false, func() string {
		var mu sync.Mutex
		cond := sync.NewCond(&mu)
		ready := false
		out := make(chan string)
		go func() {
			mu.Lock()
			for !ready {
				cond.Wait()
			}
			mu.Unlock()
			out <- "woken"
		}()
		mu.Lock()
		ready = true
		cond.Broadcast()
		mu.Unlock()
		return <-out
	}},
	{"context.AfterFunc runs after cancel, stop prevents it", false, func() string {
		ctx, cancel := context.WithCancel(context.Background())
		ran := make(chan string, 2)
		context.AfterFunc(ctx, func() { ran <- "f" })
		stop := context.AfterFunc(ctx, func() { ran <- "g" })
		stopped := stop()
		cancel()
		r := <-ran
		select {
		case x := <-ran:
			r += x
		default:
		}
		return fmt.Sprint(r, stopped, stop())
	}},
	{"child context, value and cause", false, func() string {
		type key struct{}
		parent, cancel := context.WithCancelCause(context.WithValue(context.Background(), key{}, "v"))
		child, stop := context.WithCancel(parent)
		defer stop()
		cancel(fmt.Errorf("why"))
		<-child.Done()
		return fmt.Sprint(child.Err(), context.Cause(child), child.Value(key{}), parent.Err())
	}},
	{"once value", false, func() string {
		calls := 0
		f := sync.OnceValue(func() int { calls++; return 42 })
		res := make(chan int, 2)
		go func() { res <- f() }()
		go func() { res <- f() }()
		return fmt.Sprint(<-res, <-res, calls)
	}},
	{"goexit-free gosched spin", false, func() string {
		var flag atomic.Bool
		go func() { flag.Store(true) }()
		for !flag.Load() {
			runtime.Gosched()
		}
		return "seen"
	}},
}
