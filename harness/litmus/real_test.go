package litmus

import (
	"encoding/json"
	"os"
	"runtime"
	"sort"
	"testing"
	"testing/synctest"
)

// TestReal runs every litmus program many times on the real runtime and writes the observed outcomes.
func TestReal(t *testing.T) {
	out := map[string]map[string]int{}
	runs := 0
	for _, p := range Programs {
		set := map[string]int{}
		n := 3000
		if p.Timed {
			n = 300
		}
		for i := 0; i < n; i++ {
			if i%500 == 0 {
				runtime.GOMAXPROCS(1 + (i/500)%4*3)
			}
			if p.Timed {
				synctest.Test(t, func(t *testing.T) { set[p.F()]++ })
			} else {
				set[p.F()]++
			}
			runs++
		}
		out[p.Name] = set
	}
	res := map[string]any{"runs": runs, "outcomes": map[string][]string{}}
	for name, set := range out {
		var ks []string
		for k := range set {
			ks = append(ks, k)
		}
		sort.Strings(ks)
		res["outcomes"].(map[string][]string)[name] = ks
	}
	b, _ := json.MarshalIndent(res, "", " ")
	if path := os.Getenv("LITMUS_OUT"); path != "" {
		os.WriteFile(path, b, 0o644)
	} else {
		t.Log(string(b))
	}
}
