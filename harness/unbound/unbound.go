// Package unbound is the closed system around pipe.New, written in plain Go.
// It is type-checked and run as is on the real runtime, and translated by
// gosim to run under the explorer.
package unbound

import (
	"context"
	"time"

	"github.com/fogfish/golem/pipe/v2"
	"verif/env"
)

type Cfg struct {
	Cap         int
	Sends       int  // values 1..Sends from the first sender
	Sends2      int  // values 101..100+Sends2 from a second sender (0 = no second sender)
	CloseSender bool // the (single) sender closes the send side after its last send
	Cancel      bool // a free canceller thread
	Recv        int  // -1 drain until closed; 0 nobody receives; m>0 receive m values then leave
	RecvGap     int  // >0: the receiver sleeps that long (virtual ns) before every receive - a slow consumer
	Any         bool // element type any: the odd values travel as they are, every even one as a nil interface value
}

// anyScenario: pipe.New[any]; the i-th value sent is i for odd i and a nil interface value for even i. The receiver
// logs what it gets as i again (a nil stands for the even number whose turn it is), so the ordinary oracle applies.
func anyScenario(c Cfg) {
	ctx, cancel := context.WithCancel(context.Background())
	rcv, snd := pipe.New[any](ctx, c.Cap)
	var sent env.Shared
	go func() {
		defer func() {
			if r := recover(); r != nil {
				env.Log("sent-panic", r)
			}
		}()
		for i := 1; i <= c.Sends; i++ {
			var v any = i
			if i%2 == 0 {
				v = nil
			}
			snd <- v
			sent.Add(1)
			env.Log("sent", i)
		}
		if c.CloseSender {
			close(snd)
			env.Log("closed")
		}
	}()
	if c.Recv != 0 {
		go func() {
			n := 0
			for x := range rcv {
				n++
				switch {
				case x == nil && n%2 == 0:
					env.Log("got", n)
				case x == nil:
					env.Log("got", -n) // a nil where a number was sent
				default:
					env.Log("got", x)
				}
				if c.Recv > 0 && n == c.Recv {
					return
				}
			}
			env.Log("eof")
		}()
	}
	if c.Cancel {
		go func() {
			kb := sent.Load()
			cancel()
			ka := sent.Load()
			env.Log("cancel", kb, ka)
		}()
	}
	_ = cancel
}

func Scenario(c Cfg) {
	if c.Any {
		anyScenario(c)
		return
	}
	ctx, cancel := context.WithCancel(context.Background())
	rcv, snd := pipe.New[int](ctx, c.Cap)
	var sent env.Shared

	sender := func(name string, from, n int, closeIt bool) {
		defer func() {
			if r := recover(); r != nil {
				env.Log(name+"-panic", r)
			}
		}()
		for i := from; i < from+n; i++ {
			snd <- i
			sent.Add(1)
			env.Log(name, i)
		}
		if closeIt {
			close(snd)
			env.Log("closed")
		}
	}
	go sender("sent", 1, c.Sends, c.CloseSender)
	if c.Sends2 > 0 {
		go sender("sent2", 101, c.Sends2, false)
	}

	if c.Recv != 0 {
		go func() { // receiver
			n := 0
			for {
				if c.RecvGap > 0 {
					time.Sleep(time.Duration(c.RecvGap))
				}
				x, ok := <-rcv
				if !ok {
					break
				}
				env.Log("got", x)
				n++
				if c.Recv > 0 && n == c.Recv {
					return
				}
			}
			env.Log("eof")
		}()
	}

	if c.Cancel {
		go func() {
			kb := sent.Load() // sends completed before the cancel (lower bound on the real runtime)
			cancel()
			ka := sent.Load() // under the simulated runtime: exactly the sends completed at the cancel
			env.Log("cancel", kb, ka)
		}()
	}
	_ = cancel
}
