// Package unbound is the closed system around pipe.New, written in plain Go.
// It is type-checked and run as is on the real runtime, and translated by
// gosim to run under the explorer.
package unbound

import (
	"context"

	"github.com/fogfish/golem/pipe/v2"
	"verif/env"
)

type Cfg struct {
	Cap         int
	Sends       int  // values 1..Sends from the first sender
	Sends2      int  // values 101..100+Sends2 from a second sender (0 = no second sender)
	CloseSender bool // the (single) sender closes the send side after its last send
	Cancel      bool // a free canceller thread
	Recv        int  // -1 drain until closed; 0 nobody receives; m>0 receive m values then leave
}

func Scenario(c Cfg) {
	ctx, cancel := context.WithCancel(context.Background())
	rcv, snd := pipe.New[int](ctx, c.Cap)
	var sent env.Shared

	sender := func(name string, from, n int, closeIt bool) {
		defer func() {
			if r := recover(); r != nil {
				env.Log(name+"-panic", r)
			}
		}()
		for i := from; i < from+n; i++ {
			snd <- i
			sent.Add(1)
			env.Log(name, i)
		}
		if closeIt {
			close(snd)
			env.Log("closed")
		}
	}
	go sender("sent", 1, c.Sends, c.CloseSender)
	if c.Sends2 > 0 {
		go sender("sent2", 101, c.Sends2, false)
	}

	if c.Recv != 0 {
		go func() { // receiver
			n := 0
			for x := range rcv {
				env.Log("got", x)
				n++
				if c.Recv > 0 && n == c.Recv {
					return
				}
			}
			env.Log("eof")
		}()
	}

	if c.Cancel {
		go func() {
			kb := sent.Load() // sends completed before the cancel (lower bound on the real runtime)
			cancel()
			ka := sent.Load() // under the simulated runtime: exactly the sends completed at the cancel
			env.Log("cancel", kb, ka)
		}()
	}
	_ = cancel
}
