// Package forkh is the closed system around the parallel fork stages, plain Go.
// Logging conventions as in package stage.
package forkh

import (
	"context"
	"fmt"

	"github.com/fogfish/golem/pipe/v2/fork"
	"github.com/fogfish/golem/pure/monoid"
	"verif/env"
)

type Cfg struct {
	Stage  string
	Par    int
	Input  []int  // the input sequence
	InCap  int    // capacity of the input channel
	Mask   int    // bit x: function fails on x / predicate true for x
	Mode   string // pure | try | lift
	Cancel bool
	Stop   int    // first output: -1 drain, 0 absent, m take m then leave
	Stop2  int    // second output (Partition)
	ErrRd  string // reader | none
	Monoid string // Fold: sum product max min and or
}

func Bit(m, i int) bool { return m&(1<<i) != 0 }

// Fail: some faults wrap the context errors of some other context (a fault like any other while the stage's own context is live).
func Fail(x int) error {
	switch {
	case x%2 == 0:
		return fmt.Errorf("fail%d: %w", x, context.DeadlineExceeded)
	case x%3 == 0:
		return fmt.Errorf("fail%d: %w", x, context.Canceled)
	}
	return fmt.Errorf("fail%d", x)
}

// Monoid returns the named commutative monoid over int.
func Monoid(name string) (empty int, op func(a, b int) int) {
	switch name {
	case "sum":
		return 0, func(a, b int) int { return a + b }
	case "product":
		return 1, func(a, b int) int { return a * b }
	case "max":
		return -1 << 62, func(a, b int) int {
			if a > b {
				return a
			}
			return b
		}
	case "min":
		return 1 << 62, func(a, b int) int {
			if a < b {
				return a
			}
			return b
		}
	case "and":
		return ^0, func(a, b int) int { return a & b }
	case "or":
		return 0, func(a, b int) int { return a | b }
	}
	panic("unknown monoid " + name)
}

// Cell is a mutable accumulator: the monoid below hands out a fresh one from Empty() and adds into its left operand,
// the way a big.Int sum or a map-backed bag is folded. Every accumulator a stage starts from must be its own.
type Cell struct{ V int }

type cellSum struct{}

func (cellSum) Empty() *Cell { return &Cell{} }
func (cellSum) Combine(a, b *Cell) *Cell {
	a.V += b.V
	return a
}

func consume[T any](name string, ch <-chan T, stop int) {
	env.WatchClosed(name, ch)
	if stop == 0 {
		return
	}
	go func() {
		n := 0
		for x := range ch {
			env.Log(name, x)
			n++
			if stop > 0 && n == stop {
				return
			}
		}
		env.Log(name + "-eof")
	}()
}

func errs(c Cfg, ch <-chan error) {
	env.WatchClosed("err", ch)
	if c.ErrRd == "none" {
		return
	}
	go func() {
		for e := range ch {
			env.Log("err", e.Error())
		}
		env.Log("err-eof")
	}()
}

func Scenario(c Cfg) {
	ctx, cancel := context.WithCancel(context.Background())
	in := make(chan int, c.InCap)
	gate := make(chan struct{})
	if c.Stage != "fold2" {
		close(gate)
	}
	go func() {
		<-gate
		for _, x := range c.Input {
			select {
			case in <- x:
				env.Log("sent", x)
			case <-ctx.Done():
				close(in)
				env.Log("in-closed")
				return
			}
		}
		close(in)
		env.Log("in-closed")
	}()
	// every user function logs its call and yields, so that in-flight calls overlap in every order
	pred := fork.Pure(func(x int) bool { env.Log("call", x); env.Yield(); return Bit(c.Mask, x) })
	fn := func(x int) (int, error) {
		env.Log("call", x)
		env.Yield()
		if Bit(c.Mask, x) {
			return 0, Fail(x)
		}
		return x * 10, nil
	}
	lift := func() fork.F[int, int] {
		switch c.Mode {
		case "try":
			return fork.Try(fn)
		case "lift":
			return fork.Lift(fn)
		}
		return fork.Pure(func(x int) int { env.Log("call", x); env.Yield(); return x * 10 })
	}
	switch c.Stage {
	case "map":
		out, exx := fork.Map(ctx, c.Par, in, lift())
		consume("got", out, c.Stop)
		errs(c, exx)
	case "fmap":
		arrow := func(ctx context.Context, x int, out chan<- int) error {
			env.Log("call", x)
			for j := 0; j < 2; j++ {
				select {
				case out <- x*10 + j:
				case <-ctx.Done():
					return nil
				}
			}
			if Bit(c.Mask, x) {
				return Fail(x)
			}
			return nil
		}
		var ff fork.FF[int, int]
		if c.Mode == "lift" {
			ff = fork.LiftF(arrow)
		} else {
			ff = fork.TryF(arrow)
		}
		out, exx := fork.FMap(ctx, c.Par, in, ff)
		consume("got", out, c.Stop)
		errs(c, exx)
	case "filter":
		consume("got", fork.Filter(ctx, c.Par, in, pred), c.Stop)
	case "partition":
		l, r := fork.Partition(ctx, c.Par, in, pred)
		consume("l", l, c.Stop)
		consume("r", r, c.Stop2)
	case "foreach":
		if c.Mode == "lift" || c.Mode == "try" {
			// a visitor that fails on the masked elements: ForEach has no error channel, every element is still visited once
			consume("done", fork.ForEach(ctx, c.Par, in, lift()), -1)
			break
		}
		consume("done", fork.ForEach(ctx, c.Par, in, fork.Pure(func(x int) int { env.Log("call", x); env.Yield(); return x })), -1)
	case "map2":
		// one F value used by two stages: the second one runs over elements that never fail and must not be affected
		// by the failures the first one has seen
		f := lift()
		out, exx := fork.Map(ctx, c.Par, in, f)
		consume("got", out, c.Stop)
		errs(c, exx)
		in2 := make(chan int, c.InCap)
		go func() {
			for i := range c.Input {
				in2 <- 33 + i
			}
			close(in2)
		}()
		out2, exx2 := fork.Map(ctx, c.Par, in2, f)
		consume("gotb", out2, -1)
		env.WatchClosed("errb", exx2)
		go func() {
			for e := range exx2 {
				env.Log("errb", e.Error())
			}
			env.Log("errb-eof")
		}()
	case "void":
		consume("done", fork.Void(ctx, c.Par, in), -1)
	case "fold2":
		// two independent folds: a wide one (Par workers) whose input stays idle until a small one has delivered. Nothing
		// the first one holds (workers parked on an empty input) may keep the second one from running.
		empty, op := Monoid(c.Monoid)
		m := monoid.FromOp(empty, op)
		wide := fork.Fold(ctx, c.Par, in, m) // `in` is fed by the producer above, which waits for the gate
		in2 := make(chan int, 2)
		in2 <- 5
		in2 <- 6
		close(in2)
		small := fork.Fold(ctx, 2, in2, m)
		env.WatchClosed("gotb", small)
		go func() {
			for x := range small {
				env.Log("gotb", x)
			}
			env.Log("gotb-eof")
			close(gate)
		}()
		consume("got", wide, c.Stop)
	case "foldptr":
		pin := make(chan *Cell, c.InCap)
		go func() {
			for x := range in {
				pin <- &Cell{V: x}
			}
			close(pin)
		}()
		res := fork.Fold(ctx, c.Par, pin, monoid.Monoid[*Cell](cellSum{}))
		env.WatchClosed("got", res)
		go func() {
			for x := range res {
				env.Log("got", x.V)
			}
			env.Log("got-eof")
		}()
	case "fold":
		empty, op := Monoid(c.Monoid)
		m := monoid.FromOp(empty, op)
		consume("got", fork.Fold(ctx, c.Par, in, m), c.Stop)
	default:
		panic("unknown stage " + c.Stage)
	}
	if c.Cancel {
		go func() { env.Log("cancel"); cancel() }()
	}
	_ = cancel
}
