module vharness

go 1.24
