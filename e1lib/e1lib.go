// Package e1lib turns (scenario, oracle) pairs into drv results by exploring
// every schedule of the scenario on the simulated runtime.
package e1lib

import (
	"crypto/sha1"
	"encoding/hex"
	"encoding/json"
	"fmt"
	"io"
	"log/slog"
	"os"
	"path/filepath"
	"sort"
	"strings"
	"time"

	"verif/drv"
	"verif/explore"
	"verif/obs"
	"verif/rt"
)

// LibPrefix marks the goroutines created by the code under test.
const LibPrefix = "github.com/fogfish/golem/"

// Scenario is a closed system plus its oracle.
type Scenario struct {
	Name     string
	Root     func()
	Check    func(o *obs.Obs) string // "" or "signature|message"
	PoolLIFO bool
	Bound    int // preemption bound, <0 = unbounded
	// RealDone lists the log kinds whose presence means a real-runtime execution is complete; nil = the scenario
	// is not run by the free-running pass (it does not terminate by itself, or depends on the virtual clock)
	RealDone []string
	// Live: liveness scenario - explored under rt's DonePriority restriction; an execution that runs into the
	// horizon is a violation (Check is called with o.Horizon set) instead of an inconclusive run
	Live bool
	// Deviations: Bound counts deviations from the default schedule (preemptions and non-default select arms / partners)
	Deviations bool
	Sym        bool // sibling library goroutines (workers of one fork stage) are interchangeable
	Sample     any  // printable description of the configuration
	// Nontrivial reports whether the explored scenario is non-trivial given the number of distinct outcomes
	Nontrivial func(outcomes, executions, states int) bool
	// Count lets the scenario add counters from each terminal state
	Count func(o *obs.Obs, counters, maxima map[string]int)

	// OnHorizon is the oracle for an execution that ran into the step horizon without being a livelock of one
	// thread (timed scenarios in which something keeps happening tick after tick); nil = inconclusive
	OnHorizon func(o *obs.Obs) string

	// Horizon overrides the step horizon of an execution (0 = the default of rt)
	Horizon int

	proj map[string]bool // projected outcomes of the complete terminal states (see ProjFile)
}

func init() {
	slog.SetDefault(slog.New(slog.NewTextHandler(io.Discard, nil)))
}

// Observe builds the oracle's view of a finished simulated execution.
func Observe(x *rt.Exec) *obs.Obs {
	o := &obs.Obs{Sim: true, Logs: map[string][]obs.Event{}, Horizon: x.HitHorizon, Closed: x.Final}
	for _, t := range x.Threads {
		te := obs.ThreadEnd{ID: t.ID, Site: t.Site, Lib: t.Lib, Blocked: t.AtEnd}
		if t.Panic != nil {
			te.Panic = fmt.Sprint(t.Panic)
		}
		o.Threads = append(o.Threads, te)
		for _, e := range t.Log {
			o.Logs[e.Kind] = append(o.Logs[e.Kind], obs.Event{Time: e.Time, Kind: e.Kind, Args: e.Args})
		}
	}
	return o
}

// ProjFile is where the set of projected outcomes (obs.Project) of a completely explored scenario is stored for
// the outcome-conformance check of the free-running pass; "" when $VERIF_PROJ_DIR is not set.
func (s *Scenario) ProjFile() string {
	dir := os.Getenv("VERIF_PROJ_DIR")
	if dir == "" {
		return ""
	}
	h := sha1.Sum([]byte(s.Name))
	return filepath.Join(dir, hex.EncodeToString(h[:])+".json")
}

func (s *Scenario) explorer(deadline time.Time, counters, maxima map[string]int) *explore.Explorer {
	return &explore.Explorer{
		Bound: s.Bound, Cache: true, MaxViol: 1, Deadline: deadline, Tick: drv.Tick,
		Root: s.Root,
		Cfg: func(x *rt.Exec) {
			x.LibPrefix = LibPrefix
			x.PoolLIFO = s.PoolLIFO
			x.Symmetry = s.Sym
			x.DonePriority = s.Live
			x.ArmCost = s.Deviations
			if s.Live {
				x.Horizon = 400
			}
			if s.Horizon > 0 {
				x.Horizon = s.Horizon
			}
		},
		Check: func(x *rt.Exec) string {
			o := Observe(x)
			if s.Count != nil && counters != nil {
				s.Count(o, counters, maxima)
			}
			if x.HitHorizon && !s.Live {
				if x.Livelock != "" {
					return fmt.Sprintf("LIVELOCK|the execution never ends: the goroutine created at %s has been running alone for more than 1000 steps with no other goroutine able to run and no timer pending, so nothing can ever change what it sees (channels closed so far: %v)", x.Livelock, x.Final)
				}
				if s.OnHorizon != nil {
					return s.OnHorizon(o)
				}
				return ""
			}
			if s.proj != nil {
				complete := true
				for _, k := range s.RealDone {
					complete = complete && o.Has(k)
				}
				if complete {
					s.proj[o.Project(s.RealDone)] = true
				}
			}
			return s.Check(o)
		},
		Outcome: func(x *rt.Exec) string { return Observe(x).Canon() },
	}
}

type replayData struct {
	Choices []int `json:"choices"`
}

// Run explores the scenario and packages the result.
func (s *Scenario) Run(deadline time.Time) drv.Result {
	counters, maxima := map[string]int{}, map[string]int{}
	pf := s.ProjFile()
	if pf != "" && s.RealDone != nil && s.Bound < 0 {
		s.proj = map[string]bool{}
	}
	e := s.explorer(deadline, counters, maxima)
	e.Explore()
	if s.proj != nil && e.Exhaustive && e.HorizonHits == 0 && len(e.Violations) == 0 {
		// every schedule was explored: the real runtime cannot produce a complete outcome outside this set
		var ps []string
		for k := range s.proj {
			ps = append(ps, k)
		}
		sort.Strings(ps)
		if b, err := json.Marshal(ps); err == nil {
			os.WriteFile(pf, b, 0o644)
		}
		counters["outcome_sets_for_conformance"]++
	}
	s.proj = nil
	r := drv.Result{
		Case: s.Name, States: len(e.States), Transitions: e.Transitions, Evaluations: e.Executions,
		Outcomes: len(e.Outcomes), Exhaustive: e.Exhaustive, Counters: counters, Maxima: maxima,
	}
	counters["terminal_states"] += e.Terminals
	counters["pruned_revisits"] += e.Pruned
	if e.MaxDepth > maxima["max_depth"] {
		maxima["max_depth"] = e.MaxDepth
	}
	if e.HorizonHits > 0 && s.Live && len(e.Violations) > 0 {
		r.Exhaustive = true // the horizon hit is the violation that was looked for
	} else if e.HorizonHits > 0 {
		counters["horizon_hits"] += e.HorizonHits
		r.Note = "horizon hit"
	} else if !e.Exhaustive {
		r.Note = "time budget reached"
	}
	nt := len(e.Outcomes) > 1
	if s.Nontrivial != nil {
		nt = s.Nontrivial(len(e.Outcomes), e.Executions, len(e.States))
	}
	if nt {
		r.Nontrivial = 1
	}
	if s.Sample != nil {
		one := ""
		for k := range e.Outcomes {
			if one == "" || k < one {
				one = k
			}
		}
		r.Sample = map[string]any{"case": s.Name, "config": s.Sample, "states": len(e.States), "executions": e.Executions, "distinct_outcomes": len(e.Outcomes), "one_terminal_outcome": one}
	}
	for _, v := range e.Violations {
		sig, msg := split(v.Msg)
		// determinism guard: the schedule must replay to the same verdict twice
		tr1, v1, o1, err1 := e.Replay(v.Choices)
		_, v2, o2, err2 := e.Replay(v.Choices)
		s0, _ := split(v.Msg)
		s1, _ := split(v1)
		s2, _ := split(v2)
		if err1 != nil || err2 != nil || s1 != s0 || s2 != s0 || o1 != o2 {
			panic(fmt.Sprintf("NONDETERMINISM in %s: verdicts %q / %q / %q errs %v %v", s.Name, v.Msg, v1, v2, err1, err2))
		}
		r.Viols = append(r.Viols, drv.Viol{Sig: sig, Msg: msg, Replay: replayData{v.Choices}, Trace: tr1})
	}
	return r
}

// Replay re-executes a recorded schedule.
func (s *Scenario) Replay(raw json.RawMessage) (string, string, error) {
	var rd replayData
	if err := json.Unmarshal(raw, &rd); err != nil {
		return "", "", err
	}
	e := s.explorer(time.Time{}, nil, nil)
	tr, v, _, err := e.Replay(rd.Choices)
	_, msg := split(v)
	return tr, msg, err
}

func split(m string) (string, string) {
	if i := strings.Index(m, "|"); i >= 0 {
		return m[:i], m[i+1:]
	}
	return m, m
}
