//go:build !sim

package e1lib

import (
	"fmt"
	"runtime"
	"time"

	"verif/env"
)

// RunReal executes the (untranslated) scenario on the real runtime `runs` times under several GOMAXPROCS
// values and applies the same oracle to what the harness logged. It samples schedules, so it decides
// nothing by itself; it validates the model (every real outcome must satisfy the oracle that the
// exhaustive exploration checked) and gives the race detector something to look at.
func (s *Scenario) RunReal(runs int) (done int, violation string) {
	procs := []int{1, 2, 4, 16}
	for i := 0; i < runs; i++ {
		runtime.GOMAXPROCS(procs[i%len(procs)])
		env.Reset()
		s.Root()
		deadline := time.Now().Add(20 * time.Second)
		for {
			o := env.Snapshot()
			complete := true
			for _, k := range s.RealDone {
				if !o.Has(k) {
					complete = false
				}
			}
			if complete {
				time.Sleep(20 * time.Microsecond) // let the last log entries of other goroutines land
				o = env.Snapshot()
				if m := s.Check(o); m != "" {
					return done, fmt.Sprintf("%s (real runtime, run %d, GOMAXPROCS %d)", m, i, procs[i%len(procs)])
				}
				done++
				break
			}
			if time.Now().After(deadline) {
				buf := make([]byte, 1<<16)
				buf = buf[:runtime.Stack(buf, true)]
				return done, fmt.Sprintf("%s/stuck|real runtime: the execution did not complete within 20 s (logged so far: %v)\n%s", s.Name, o.Canon(), buf)
			}
			time.Sleep(10 * time.Microsecond)
		}
	}
	return done, ""
}
