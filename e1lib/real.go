//go:build !sim

package e1lib

import (
	"encoding/json"
	"fmt"
	"os"
	"runtime"
	"time"

	"verif/env"
)

// RunReal executes the (untranslated) scenario on the real runtime `runs` times under several GOMAXPROCS
// values and applies the same oracle to what the harness logged. It samples schedules, so it decides
// nothing by itself; it validates the model (every real outcome must satisfy the oracle that the
// exhaustive exploration checked) and gives the race detector something to look at.
// Timeouts counts executions that did not complete within the wall-clock limit. A limit on wall-clock time is
// not an oracle (a loaded machine can starve a process for a long time), so such a run is inconclusive and is
// only counted, never reported as a violation.
var Timeouts int

// Conformed counts the real executions whose complete output tuple (obs.Project) was found among the tuples of
// the exhaustively explored terminal states of the same scenario; Compared counts the scenarios for which such a
// set was available (explored completely and without a bound).
var Conformed, Compared int

func (s *Scenario) RunReal(runs int) (done int, violation string) {
	procs := []int{1, 2, 4, 16}
	var explored map[string]bool
	if pf := s.ProjFile(); pf != "" {
		if b, err := os.ReadFile(pf); err == nil {
			var ps []string
			if json.Unmarshal(b, &ps) == nil {
				explored = map[string]bool{}
				for _, p := range ps {
					explored[p] = true
				}
				Compared++
			}
		}
	}
	for i := 0; i < runs; i++ {
		runtime.GOMAXPROCS(procs[i%len(procs)])
		env.Reset()
		s.Root()
		deadline := time.Now().Add(10 * time.Second)
		for {
			o := env.Snapshot()
			complete := true
			for _, k := range s.RealDone {
				if !o.Has(k) {
					complete = false
				}
			}
			if complete {
				time.Sleep(20 * time.Microsecond) // let the last log entries of other goroutines land
				o = env.Snapshot()
				if m := s.Check(o); m != "" {
					return done, fmt.Sprintf("%s (real runtime, run %d, GOMAXPROCS %d)", m, i, procs[i%len(procs)])
				}
				if explored != nil {
					if p := o.Project(s.RealDone); !explored[p] {
						return done, fmt.Sprintf("CONFORMANCE|the real runtime produced the outcome %q, which is not among the %d outcomes of the exhaustive exploration of this scenario on the simulated runtime", p, len(explored))
					}
					Conformed++
				}
				done++
				break
			}
			if time.Now().After(deadline) {
				Timeouts++
				return done, ""
			}
			time.Sleep(50 * time.Microsecond)
		}
	}
	return done, ""
}
