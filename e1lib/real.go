//go:build !sim

package e1lib

import (
	"encoding/json"
	"fmt"
	"os"
	"runtime"
	"strings"
	"time"

	"verif/env"
)

// RunReal executes the (untranslated) scenario on the real runtime `runs` times under several GOMAXPROCS
// values and applies the same oracle to what the harness logged. It samples schedules, so it decides
// nothing by itself; it validates the model (every real outcome must satisfy the oracle that the
// exhaustive exploration checked) and gives the race detector something to look at.
// Timeouts counts executions that did not complete within the wall-clock limit. A limit on wall-clock time is
// not an oracle (a loaded machine can starve a process for a long time), so such a run is inconclusive and is
// only counted, never reported as a violation.
var Timeouts int

// Abandoned is set when an execution neither completed nor came to rest: later scenarios would not start from a clean
// slate, so the caller must stop the pass.
var Abandoned bool

// Conformed counts the real executions whose complete output tuple (obs.Project) was found among the tuples of
// the exhaustively explored terminal states of the same scenario; Compared counts the scenarios for which such a
// set was available (explored completely and without a bound).
var Conformed, Compared int

func (s *Scenario) RunReal(runs int) (done int, violation string) {
	procs := []int{1, 2, 4, 16}
	var explored map[string]bool
	if pf := s.ProjFile(); pf != "" {
		if b, err := os.ReadFile(pf); err == nil {
			var ps []string
			if json.Unmarshal(b, &ps) == nil {
				explored = map[string]bool{}
				for _, p := range ps {
					explored[p] = true
				}
				Compared++
			}
		}
	}
	for i := 0; i < runs; i++ {
		runtime.GOMAXPROCS(procs[i%len(procs)])
		env.Reset()
		base := runtime.NumGoroutine()
		s.Root()
		deadline := time.Now().Add(30 * time.Second)
		for {
			o := env.Snapshot()
			complete := true
			for _, k := range s.RealDone {
				if !o.Has(k) {
					complete = false
				}
			}
			var cost time.Duration
			if complete {
				// the markers are there but some goroutine of the scenario may still be able to run (it may be about to log, or
				// be starved by a busy machine): the oracle speaks about terminal states, so it is applied only once
				// every other goroutine has finished or is blocked for good. This is read off the goroutines'
				// states, not off a clock.
				t0 := time.Now()
				complete = quiescent(base)
				cost = time.Since(t0)
			}
			if complete {
				o = env.Snapshot()
				if m := s.Check(o); m != "" {
					return done, fmt.Sprintf("%s (real runtime, run %d, GOMAXPROCS %d)", m, i, procs[i%len(procs)])
				}
				if explored != nil {
					if p := o.Project(s.RealDone); !explored[p] {
						return done, fmt.Sprintf("CONFORMANCE|the real runtime produced the outcome %q, which is not among the %d outcomes of the exhaustive exploration of this scenario on the simulated runtime", p, len(explored))
					}
					Conformed++
				}
				done++
				break
			}
			if time.Now().After(deadline) {
				Timeouts++
				// goroutines of this run that can still run would write into the logs of the next scenario: wait for them to
				// settle; if they do not, the whole pass is abandoned (inconclusive), never turned into a verdict
				for w := time.Now().Add(60 * time.Second); !quiescent(0); time.Sleep(time.Millisecond) {
					if time.Now().After(w) {
						Abandoned = true
						break
					}
				}
				return done, ""
			}
			// the rest test walks every goroutine of the process (scenarios may legitimately leave blocked ones behind): it must
			// not eat the processor it is waiting for
			time.Sleep(max(50*time.Microsecond, 2*cost))
		}
	}
	return done, ""
}

var stackBuf = make([]byte, 1<<16)

// quiescent reports whether nothing but the calling goroutine can run: either the number of goroutines is back to
// what it was before the scenario started, or every other goroutine is parked in a channel operation, a select or a
// sync primitive (a sleeping goroutine will wake up by itself and does not count as parked).
func quiescent(base int) bool {
	if runtime.NumGoroutine() <= base {
		return true
	}
	var n int
	for {
		n = runtime.Stack(stackBuf, true)
		if n < len(stackBuf) {
			break
		}
		stackBuf = make([]byte, 2*len(stackBuf))
	}
	first := true
	for _, line := range strings.Split(string(stackBuf[:n]), "\n") {
		if !strings.HasPrefix(line, "goroutine ") {
			continue
		}
		i, j := strings.IndexByte(line, '['), strings.LastIndexByte(line, ']')
		if i < 0 || j < i {
			return false
		}
		if first { // the caller itself
			first = false
			continue
		}
		state := line[i+1 : j]
		if k := strings.IndexByte(state, ','); k >= 0 {
			state = state[:k]
		}
		switch state {
		case "chan receive", "chan send", "select", "chan receive (nil chan)", "chan send (nil chan)", "select (no cases)",
			"sync.WaitGroup.Wait", "semacquire", "sync.Mutex.Lock", "sync.RWMutex.RLock", "sync.RWMutex.Lock", "sync.Cond.Wait":
		default:
			LastBusy = line
			return false
		}
	}
	return true
}

// LastBusy is the header line of the goroutine that kept the last rest test from succeeding (diagnostics).
var LastBusy string
