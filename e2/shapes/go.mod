module e2shapes

go 1.24
