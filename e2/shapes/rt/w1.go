package shapes

import (
	"reflect"
	"unsafe"

	"github.com/fogfish/golem/hseq"
	"github.com/fogfish/golem/optics"
)

// ---- W1: one key twice with one type ----------------------------------------------
// The struct's own field ID shadows the promoted field ID of a struct embedded after it; both are strings. Whatever
// is derived by the name "ID" (alone or in a tuple) is the first one in declaration order, the container's own.
type W1Meta struct {
	ID   string
	Note string
}

type W1 struct {
	Pre   int8
	ID    string
	Title int32
	W1Meta
	Post int8
}

func fillW1(p *W1, k int) {
	p.Pre, p.ID, p.Title, p.Post = int8(k+1), []string{"own-a", "own-b", ""}[k%3], int32(k)<<20|5, int8(-k-1)
	p.W1Meta = W1Meta{ID: []string{"meta-x", "", "meta-z"}[k%3], Note: "note"}
}

const w1Src = `type W1Meta struct{ ID, Note string }
type W1 struct { Pre int8; ID string; Title int32; W1Meta; Post int8 }`

// ---- X1: an embedded struct at offset 0 and its first field ---------------------
// The embedded struct and its first field start at the same address and are two entries of the unfolding with two
// different types: a tuple derived by type from (X1Meta, string) is the whole embedded struct and its first string.
type X1Meta struct {
	Name string
	Note string
}

type X1 struct {
	X1Meta
	Title string
	N     int16
}

func fillX1(p *X1, k int) {
	p.X1Meta = X1Meta{Name: []string{"n0", "n1", ""}[k%3], Note: []string{"", "t1", "t2"}[k%3]}
	p.Title, p.N = []string{"title", "", "T"}[k%3], int16(k+7)
}

const x1Src = `type X1Meta struct{ Name, Note string }
type X1 struct { X1Meta; Title string; N int16 }`

// ---- conv2: two fields of two named string types (and of two named integer / float / byte-slice types) -------------
type PassStr string
type OtherInt int16
type OtherF float32
type OtherB []byte

type conv2 struct {
	Pre int8
	S   NameStr
	P   PassStr
	I   I16
	J   OtherInt
	F   F32
	G   OtherF
	B   Bytes
	C   OtherB
}

func init() {
	strs := []string{"", "x", "a longer one"}
	Register(Shape{Name: "W1", Family: "dupkey-sametype", Source: w1Src, Run: func(c *Ctx) {
		own := func(p *W1) *string { return &p.ID }
		title := func(p *W1) *int32 { return &p.Title }
		i32 := []int32{0, 1, -5}
		if c.Is("C01") {
			Derive(c, `ForProduct1[W1, string]("ID")`, func() {
				Lens(c, `ForProduct1[W1, string]("ID")`, optics.ForProduct1[W1, string]("ID"), own, strs, fillW1)
			})
			Derive(c, `ForProduct1[W1, string]()`, func() { Lens(c, `ForProduct1[W1, string]()`, optics.ForProduct1[W1, string](), own, strs, fillW1) })
			Derive(c, `ForSpectrum1[W1, string]("ID")`, func() {
				Reflector(c, `ForSpectrum1[W1, string]("ID")`, optics.ForSpectrum1[W1, string]("ID"), own, strs, fillW1)
			})
			Derive(c, `ForProduct1[W1, string]("Note")`, func() {
				Lens(c, `ForProduct1[W1, string]("Note")`, optics.ForProduct1[W1, string]("Note"), func(p *W1) *string { return &p.Note }, strs, fillW1)
			})
			Derive(c, `ForProduct2[W1, string, int32]("ID", "Title")`, func() {
				a, b := optics.ForProduct2[W1, string, int32]("ID", "Title")
				Lens(c, `lens #0 of ForProduct2[W1, string, int32]("ID", "Title")`, a, own, strs, fillW1)
				Lens(c, `lens #1 of ForProduct2[W1, string, int32]("ID", "Title")`, b, title, i32, fillW1)
			})
			Derive(c, `ForProduct2[W1, int32, string]("Title", "ID")`, func() {
				b, a := optics.ForProduct2[W1, int32, string]("Title", "ID")
				Lens(c, `lens #1 of ForProduct2[W1, int32, string]("Title", "ID")`, a, own, strs, fillW1)
				Lens(c, `lens #0 of ForProduct2[W1, int32, string]("Title", "ID")`, b, title, i32, fillW1)
			})
			Derive(c, `ForProduct3[W1, string, int32, string]("ID", "Title", "Note")`, func() {
				a, b, n := optics.ForProduct3[W1, string, int32, string]("ID", "Title", "Note")
				Lens(c, `lens #0 of ForProduct3[W1, string, int32, string]("ID", "Title", "Note")`, a, own, strs, fillW1)
				Lens(c, `lens #1 of ForProduct3[W1, string, int32, string]("ID", "Title", "Note")`, b, title, i32, fillW1)
				Lens(c, `lens #2 of ForProduct3[W1, string, int32, string]("ID", "Title", "Note")`, n, func(p *W1) *string { return &p.Note }, strs, fillW1)
			})
			Derive(c, `ForSpectrum2[W1, string, int32]("ID", "Title")`, func() {
				a, b := optics.ForSpectrum2[W1, string, int32]("ID", "Title")
				Reflector(c, `reflector #0 of ForSpectrum2[W1, string, int32]("ID", "Title")`, a, own, strs, fillW1)
				Reflector(c, `reflector #1 of ForSpectrum2[W1, string, int32]("ID", "Title")`, b, title, i32, fillW1)
			})
		}
		if c.Is("C04") {
			Derive(c, `ForShape2[W1, string, int32]("ID", "Title")`, func() {
				Shape2(c, `ForShape2[W1, string, int32]("ID", "Title")`, optics.ForShape2[W1, string, int32]("ID", "Title"), own, title, strs, i32, fillW1)
			})
			Derive(c, `ForShape2[W1, string, int32]()`, func() {
				Shape2(c, `ForShape2[W1, string, int32]()`, optics.ForShape2[W1, string, int32](), own, title, strs, i32, fillW1)
			})
			Derive(c, `ForShape3[W1, int32, string, int8]("Title", "ID", "Post")`, func() {
				Shape3(c, `ForShape3[W1, int32, string, int8]("Title", "ID", "Post")`, optics.ForShape3[W1, int32, string, int8]("Title", "ID", "Post"), title, own, func(p *W1) *int8 { return &p.Post }, i32, strs, []int8{0, 1, -1}, fillW1)
			})
		}
		if c.Is("C03") {
			st := reflect.TypeOf("")
			Listing(c, []E[W1]{
				{Name: "Pre", Key: "Pre", Type: reflect.TypeOf(int8(0)), Addr: func(p *W1) unsafe.Pointer { return unsafe.Pointer(&p.Pre) }},
				{Name: "ID", Key: "ID", Type: st, Addr: func(p *W1) unsafe.Pointer { return unsafe.Pointer(&p.ID) }},
				{Name: "Title", Key: "Title", Type: reflect.TypeOf(int32(0)), Addr: func(p *W1) unsafe.Pointer { return unsafe.Pointer(&p.Title) }},
				{Name: "W1Meta", Key: "W1Meta", Type: reflect.TypeOf(W1Meta{}), Anonymous: true, Addr: func(p *W1) unsafe.Pointer { return unsafe.Pointer(&p.W1Meta) }},
				{Name: "ID", Key: "ID", Type: st, Addr: func(p *W1) unsafe.Pointer { return unsafe.Pointer(&p.W1Meta.ID) }},
				{Name: "Note", Key: "Note", Type: st, Addr: func(p *W1) unsafe.Pointer { return unsafe.Pointer(&p.Note) }},
				{Name: "Post", Key: "Post", Type: reflect.TypeOf(int8(0)), Addr: func(p *W1) unsafe.Pointer { return unsafe.Pointer(&p.Post) }},
			})
			TypeIs(c, "ForType[string] on W1", func() hseq.Seq[W1] { return hseq.Seq[W1]{hseq.ForType[string](hseq.New[W1]())} }, []int{1})
			TypeIs(c, `New[W1]("ID")`, func() hseq.Seq[W1] { return hseq.New[W1]("ID") }, []int{1})
			TypeIs(c, `New[W1]("Note", "ID", "Pre")`, func() hseq.Seq[W1] { return hseq.New[W1]("Note", "ID", "Pre") }, []int{5, 1, 0})
			TypeIs(c, `New3[W1, W1Meta, string, int32]`, func() hseq.Seq[W1] { return hseq.New3[W1, W1Meta, string, int32]() }, []int{3, 1, 2})
		}
	}})
	Register(Shape{Name: "X1", Family: "embedded-first", Source: x1Src, Run: func(c *Ctx) {
		meta := func(p *X1) *X1Meta { return &p.X1Meta }
		name := func(p *X1) *string { return &p.Name }
		metas := []X1Meta{{}, {"a", "b"}, {"", "only-note"}}
		if c.Is("C01") {
			Derive(c, `ForProduct1[X1, X1Meta]()`, func() { Lens(c, `ForProduct1[X1, X1Meta]()`, optics.ForProduct1[X1, X1Meta](), meta, metas, fillX1) })
			Derive(c, `ForProduct1[X1, string]()`, func() { Lens(c, `ForProduct1[X1, string]()`, optics.ForProduct1[X1, string](), name, strs, fillX1) })
			Derive(c, `ForProduct2[X1, X1Meta, string]()`, func() {
				a, b := optics.ForProduct2[X1, X1Meta, string]()
				Lens(c, `lens #0 of ForProduct2[X1, X1Meta, string]()`, a, meta, metas, fillX1)
				Lens(c, `lens #1 of ForProduct2[X1, X1Meta, string]()`, b, name, strs, fillX1)
			})
			Derive(c, `ForProduct2[X1, string, X1Meta]()`, func() {
				b, a := optics.ForProduct2[X1, string, X1Meta]()
				Lens(c, `lens #1 of ForProduct2[X1, string, X1Meta]()`, a, meta, metas, fillX1)
				Lens(c, `lens #0 of ForProduct2[X1, string, X1Meta]()`, b, name, strs, fillX1)
			})
			Derive(c, `ForProduct3[X1, string, X1Meta, int16]()`, func() {
				b, a, n := optics.ForProduct3[X1, string, X1Meta, int16]()
				Lens(c, `lens #1 of ForProduct3[X1, string, X1Meta, int16]()`, a, meta, metas, fillX1)
				Lens(c, `lens #0 of ForProduct3[X1, string, X1Meta, int16]()`, b, name, strs, fillX1)
				Lens(c, `lens #2 of ForProduct3[X1, string, X1Meta, int16]()`, n, func(p *X1) *int16 { return &p.N }, []int16{0, 1, -1}, fillX1)
			})
			Derive(c, `ForProduct2[X1, X1Meta, string]("X1Meta", "Name")`, func() {
				a, b := optics.ForProduct2[X1, X1Meta, string]("X1Meta", "Name")
				Lens(c, `lens #0 of ForProduct2[X1, X1Meta, string]("X1Meta", "Name")`, a, meta, metas, fillX1)
				Lens(c, `lens #1 of ForProduct2[X1, X1Meta, string]("X1Meta", "Name")`, b, name, strs, fillX1)
			})
			Derive(c, `ForSpectrum2[X1, X1Meta, string]()`, func() {
				a, b := optics.ForSpectrum2[X1, X1Meta, string]()
				Reflector(c, `reflector #0 of ForSpectrum2[X1, X1Meta, string]()`, a, meta, metas, fillX1)
				Reflector(c, `reflector #1 of ForSpectrum2[X1, X1Meta, string]()`, b, name, strs, fillX1)
			})
		}
		if c.Is("C04") {
			Derive(c, `ForShape2[X1, X1Meta, string]("X1Meta", "Title")`, func() {
				Shape2(c, `ForShape2[X1, X1Meta, string]("X1Meta", "Title")`, optics.ForShape2[X1, X1Meta, string]("X1Meta", "Title"), meta, func(p *X1) *string { return &p.Title }, metas, strs, fillX1)
			})
		}
		if c.Is("C03") {
			TypeIs(c, `New2[X1, X1Meta, string]`, func() hseq.Seq[X1] { return hseq.New2[X1, X1Meta, string]() }, []int{0, 1})
			TypeIs(c, `New2[X1, string, X1Meta]`, func() hseq.Seq[X1] { return hseq.New2[X1, string, X1Meta]() }, []int{1, 0})
		}
	}})
	Register(Shape{Name: "Y1", Family: "bimap-by-name", Source: "type conv2 struct { Pre int8; S NameStr; P PassStr; I I16; J OtherInt; F F32; G OtherF; B Bytes; C OtherB } // two named types per underlying type", Run: func(c *Ctx) {
		if !c.Is("C02") {
			return
		}
		// the automatic converters derive their lens like ForProduct1[S, A](name) does: the field called name must have type A itself
		MustPanic(c, "name-type-mismatch", `BiMapS[conv2, NameStr, string]("P"): the field P has type PassStr`, func() { optics.BiMapS[conv2, NameStr, string]("P") })
		MustPanic(c, "name-type-mismatch", `BiMapS[conv2, PassStr, string]("S"): the field S has type NameStr`, func() { optics.BiMapS[conv2, PassStr, string]("S") })
		MustPanic(c, "name-type-mismatch", `BiMapS[conv2, string, NameStr]("S"): the field S has type NameStr, not string`, func() { optics.BiMapS[conv2, string, NameStr]("S") })
		MustPanic(c, "name-type-mismatch", `BiMapI[conv2, I16, int]("J"): the field J has type OtherInt`, func() { optics.BiMapI[conv2, I16, int]("J") })
		MustPanic(c, "name-type-mismatch", `BiMapI[conv2, int16, int]("I"): the field I has type I16, not int16`, func() { optics.BiMapI[conv2, int16, int]("I") })
		MustPanic(c, "name-type-mismatch", `BiMapF[conv2, F32, float64]("G"): the field G has type OtherF`, func() { optics.BiMapF[conv2, F32, float64]("G") })
		MustPanic(c, "name-type-mismatch", `BiMapB[conv2, Bytes, []byte]("C"): the field C has type OtherB`, func() { optics.BiMapB[conv2, Bytes, []byte]("C") })
		MustPanic(c, "unknown-name", `BiMapS[conv2, NameStr, string]("nope")`, func() { optics.BiMapS[conv2, NameStr, string]("nope") })
		MustPanic(c, "type-absent", `BiMapS[conv2, string, NameStr](): no field of type string`, func() { optics.BiMapS[conv2, string, NameStr]() })
		MustPanic(c, "type-absent", `BiMapI[conv2, int64, int](): no field of type int64`, func() { optics.BiMapI[conv2, int64, int]() })
	}})
}
