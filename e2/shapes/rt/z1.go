package shapes

import (
	"reflect"
	"unsafe"

	"github.com/fogfish/golem/hseq"
	"github.com/fogfish/golem/optics"
)

// ---- Z1: tags that rename fields onto / away from other fields' Go names; names handed over in a reused buffer -----
// The tag, when present, IS the name. Z1Meta.ID is called "meta_id" (so "ID" is the container's own, later field and
// nothing else); the container's Rev is called "Ver" and comes before the field whose Go name is Ver (so "Ver" is Rev,
// and "Rev" names nothing); Z1Meta.Rev is called "rev".
type Z1Tags []string

type Z1Meta struct {
	ID  string `hseq:"meta_id"`
	Rev int32  `hseq:"rev,omitempty"`
}

type Z1 struct {
	Z1Meta
	ID   string
	Rev  int32 `hseq:"Ver"`
	Ver  int32
	Buf  []byte
	Tags Z1Tags `hseq:"labels"`
}

func fillZ1(p *Z1, k int) {
	p.Z1Meta = Z1Meta{ID: []string{"m0", "", "m2"}[k%3], Rev: int32(k + 100)}
	p.ID, p.Rev, p.Ver = []string{"own0", "own1", ""}[k%3], int32(k+200), int32(k+300)
	p.Buf = append(make([]byte, 0, 16), byte(k), 2)[:1+k%2]
	p.Tags = Z1Tags{"t"}
}

const z1Src = "type Z1Meta struct { ID string `hseq:\"meta_id\"`; Rev int32 `hseq:\"rev,omitempty\"` }\n" +
	"type Z1 struct { Z1Meta; ID string; Rev int32 `hseq:\"Ver\"`; Ver int32; Buf []byte; Tags Z1Tags `hseq:\"labels\"` }"

// ---- N5: value embedding five levels deep, fields before and after the embedded struct at every level -------------
type N5e struct {
	P int16
	Q string
}
type N5d struct {
	D1 int8
	N5e
	D2 int32
}
type N5c struct {
	C1 bool
	N5d
	C2 int64
}
type N5b struct {
	B1 string
	N5c
}
type N5a struct {
	A1 int8
	N5b
	A2 int16
}
type N5 struct {
	R1 int32
	N5a
	R2 bool
}

func fillN5(p *N5, k int) {
	p.R1, p.A1, p.B1, p.C1, p.D1, p.P, p.Q = int32(k+1), int8(k+2), []string{"b0", "", "b2"}[k%3], k%2 == 0, int8(k+3), int16(k+4), []string{"", "q1", "q2"}[k%3]
	p.D2, p.C2, p.A2, p.R2 = int32(k+5)<<16, int64(k+6)<<40, int16(k+7), k%2 == 1
}

const n5Src = "type N5e struct{ P int16; Q string }; type N5d struct{ D1 int8; N5e; D2 int32 }; type N5c struct{ C1 bool; N5d; C2 int64 }\n" +
	"type N5b struct{ B1 string; N5c }; type N5a struct{ A1 int8; N5b; A2 int16 }; type N5 struct{ R1 int32; N5a; R2 bool }"

func init() {
	Register(Shape{Name: "N5", Family: "embedding-depth-5", Source: n5Src, Run: func(c *Ctx) {
		strs := []string{"", "x", "a longer one"}
		i16, i32, i64 := []int16{0, 1, -5}, []int32{0, 1, -5}, []int64{0, 1, -5 << 40}
		if c.Is("C01") {
			Derive(c, "lenses on N5", func() {
				Lens(c, `ForProduct1[N5, int16]("P")`, optics.ForProduct1[N5, int16]("P"), func(p *N5) *int16 { return &p.P }, i16, fillN5)
				Lens(c, `ForProduct1[N5, string]("Q")`, optics.ForProduct1[N5, string]("Q"), func(p *N5) *string { return &p.Q }, strs, fillN5)
				Lens(c, `ForProduct1[N5, int32]("D2")`, optics.ForProduct1[N5, int32]("D2"), func(p *N5) *int32 { return &p.D2 }, i32, fillN5)
				Lens(c, `ForProduct1[N5, int64]()`, optics.ForProduct1[N5, int64](), func(p *N5) *int64 { return &p.C2 }, i64, fillN5)
				Lens(c, `ForProduct1[N5, int16]("A2")`, optics.ForProduct1[N5, int16]("A2"), func(p *N5) *int16 { return &p.A2 }, i16, fillN5)
				Lens(c, `ForProduct1[N5, N5e]()`, optics.ForProduct1[N5, N5e](), func(p *N5) *N5e { return &p.N5e }, []N5e{{}, {1, "a"}, {-1, ""}}, fillN5)
				Reflector(c, `ForSpectrum1[N5, string]("Q")`, optics.ForSpectrum1[N5, string]("Q"), func(p *N5) *string { return &p.Q }, strs, fillN5)
				a, b, d := optics.ForProduct3[N5, string, int64, bool]("Q", "C2", "R2")
				Lens(c, `lens #0 of ForProduct3[N5, string, int64, bool]("Q", "C2", "R2")`, a, func(p *N5) *string { return &p.Q }, strs, fillN5)
				Lens(c, `lens #1 of ForProduct3[N5, string, int64, bool]("Q", "C2", "R2")`, b, func(p *N5) *int64 { return &p.C2 }, i64, fillN5)
				Lens(c, `lens #2 of ForProduct3[N5, string, int64, bool]("Q", "C2", "R2")`, d, func(p *N5) *bool { return &p.R2 }, []bool{false, true, false}, fillN5)
			})
		}
		if c.Is("C03") {
			t := reflect.TypeOf
			Listing(c, []E[N5]{
				{Name: "R1", Key: "R1", Type: t(int32(0)), Addr: func(p *N5) unsafe.Pointer { return unsafe.Pointer(&p.R1) }},
				{Name: "N5a", Key: "N5a", Type: t(N5a{}), Anonymous: true, Addr: func(p *N5) unsafe.Pointer { return unsafe.Pointer(&p.N5a) }},
				{Name: "A1", Key: "A1", Type: t(int8(0)), Addr: func(p *N5) unsafe.Pointer { return unsafe.Pointer(&p.A1) }},
				{Name: "N5b", Key: "N5b", Type: t(N5b{}), Anonymous: true, Addr: func(p *N5) unsafe.Pointer { return unsafe.Pointer(&p.N5b) }},
				{Name: "B1", Key: "B1", Type: t(""), Addr: func(p *N5) unsafe.Pointer { return unsafe.Pointer(&p.B1) }},
				{Name: "N5c", Key: "N5c", Type: t(N5c{}), Anonymous: true, Addr: func(p *N5) unsafe.Pointer { return unsafe.Pointer(&p.N5c) }},
				{Name: "C1", Key: "C1", Type: t(false), Addr: func(p *N5) unsafe.Pointer { return unsafe.Pointer(&p.C1) }},
				{Name: "N5d", Key: "N5d", Type: t(N5d{}), Anonymous: true, Addr: func(p *N5) unsafe.Pointer { return unsafe.Pointer(&p.N5d) }},
				{Name: "D1", Key: "D1", Type: t(int8(0)), Addr: func(p *N5) unsafe.Pointer { return unsafe.Pointer(&p.D1) }},
				{Name: "N5e", Key: "N5e", Type: t(N5e{}), Anonymous: true, Addr: func(p *N5) unsafe.Pointer { return unsafe.Pointer(&p.N5e) }},
				{Name: "P", Key: "P", Type: t(int16(0)), Addr: func(p *N5) unsafe.Pointer { return unsafe.Pointer(&p.P) }},
				{Name: "Q", Key: "Q", Type: t(""), Addr: func(p *N5) unsafe.Pointer { return unsafe.Pointer(&p.Q) }},
				{Name: "D2", Key: "D2", Type: t(int32(0)), Addr: func(p *N5) unsafe.Pointer { return unsafe.Pointer(&p.D2) }},
				{Name: "C2", Key: "C2", Type: t(int64(0)), Addr: func(p *N5) unsafe.Pointer { return unsafe.Pointer(&p.C2) }},
				{Name: "A2", Key: "A2", Type: t(int16(0)), Addr: func(p *N5) unsafe.Pointer { return unsafe.Pointer(&p.A2) }},
				{Name: "R2", Key: "R2", Type: t(false), Addr: func(p *N5) unsafe.Pointer { return unsafe.Pointer(&p.R2) }},
			})
		}
	}})
	strs := []string{"", "x", "a longer one"}
	i32 := []int32{0, 1, -5}
	// slices with and without spare capacity, empty-but-not-nil included: the value of a slice field is its header
	bufs := [][]byte{nil, {}, append(make([]byte, 0, 32), 7, 8), {1, 2, 3}}
	ownID := func(p *Z1) *string { return &p.ID }
	metaID := func(p *Z1) *string { return &p.Z1Meta.ID }
	ver := func(p *Z1) *int32 { return &p.Rev } // the key "Ver" is the tag of Rev
	rev := func(p *Z1) *int32 { return &p.Z1Meta.Rev }
	buf := func(p *Z1) *[]byte { return &p.Buf }
	Register(Shape{Name: "Z1", Family: "renaming-tags", Source: z1Src, Run: func(c *Ctx) {
		if c.Is("C01") {
			Derive(c, `by name on Z1`, func() {
				Lens(c, `ForProduct1[Z1, string]("ID")`, optics.ForProduct1[Z1, string]("ID"), ownID, strs, fillZ1)
				Lens(c, `ForProduct1[Z1, string]("meta_id")`, optics.ForProduct1[Z1, string]("meta_id"), metaID, strs, fillZ1)
				Lens(c, `ForProduct1[Z1, int32]("Ver")`, optics.ForProduct1[Z1, int32]("Ver"), ver, i32, fillZ1)
				Lens(c, `ForProduct1[Z1, int32]("rev")`, optics.ForProduct1[Z1, int32]("rev"), rev, i32, fillZ1)
				Lens(c, `ForProduct1[Z1, []byte]("Buf")`, optics.ForProduct1[Z1, []byte]("Buf"), buf, bufs, fillZ1)
				Lens(c, `ForProduct1[Z1, []byte]()`, optics.ForProduct1[Z1, []byte](), buf, bufs, fillZ1)
				Reflector(c, `ForSpectrum1[Z1, []byte]("Buf")`, optics.ForSpectrum1[Z1, []byte]("Buf"), buf, bufs, fillZ1)
				Reflector(c, `ForSpectrum1[Z1, string]("meta_id")`, optics.ForSpectrum1[Z1, string]("meta_id"), metaID, strs, fillZ1)
			})
			Derive(c, `names handed over in a buffer that the caller reuses`, func() {
				// a derivation is complete when it returns: the caller's slice of names belongs to the caller, who
				// overwrites it for the next derivation before the first optic is ever used
				names := make([]string, 2, 4)
				names[0] = "ID"
				l1 := optics.ForProduct1[Z1, string](names[:1]...)
				r1 := optics.ForSpectrum1[Z1, string](names[:1]...)
				names[0] = "meta_id"
				l2 := optics.ForProduct1[Z1, string](names[:1]...)
				r2 := optics.ForSpectrum1[Z1, string](names[:1]...)
				names[0], names[1] = "Ver", "ID"
				a3, b3 := optics.ForProduct2[Z1, int32, string](names...)
				ra3, rb3 := optics.ForSpectrum2[Z1, int32, string](names...)
				names[0], names[1] = "rev", "meta_id"
				a4, b4 := optics.ForProduct2[Z1, int32, string](names...)
				names[0], names[1] = "nope", "Buf"
				Lens(c, `lens derived for "ID" (the buffer now says "nope")`, l1, ownID, strs, fillZ1)
				Reflector(c, `reflector derived for "ID" (the buffer now says "nope")`, r1, ownID, strs, fillZ1)
				Lens(c, `lens derived for "meta_id" (the buffer now says "nope")`, l2, metaID, strs, fillZ1)
				Reflector(c, `reflector derived for "meta_id" (the buffer now says "nope")`, r2, metaID, strs, fillZ1)
				Lens(c, `lens #0 derived for ("Ver", "ID")`, a3, ver, i32, fillZ1)
				Lens(c, `lens #1 derived for ("Ver", "ID")`, b3, ownID, strs, fillZ1)
				Reflector(c, `reflector #0 derived for ("Ver", "ID")`, ra3, ver, i32, fillZ1)
				Reflector(c, `reflector #1 derived for ("Ver", "ID")`, rb3, ownID, strs, fillZ1)
				Lens(c, `lens #0 derived for ("rev", "meta_id")`, a4, rev, i32, fillZ1)
				Lens(c, `lens #1 derived for ("rev", "meta_id")`, b4, metaID, strs, fillZ1)
			})
		}
		if c.Is("C02") {
			MustPanic(c, "unknown-name", `ForProduct1[Z1, int32]("Rev"): both fields called Rev in Go carry a tag, nothing is named "Rev"`, func() { optics.ForProduct1[Z1, int32]("Rev") })
			MustPanic(c, "unknown-name", `ForSpectrum1[Z1, Z1Tags]("Tags"): the field is named "labels"`, func() { optics.ForSpectrum1[Z1, Z1Tags]("Tags") })
			MustPanic(c, "unknown-name", `ForProduct2[Z1, string, int32]("ID", "Rev")`, func() { optics.ForProduct2[Z1, string, int32]("ID", "Rev") })
			MustPanic(c, "name-type-mismatch", `ForProduct1[Z1, string]("Ver"): "Ver" is the int32 field Rev`, func() { optics.ForProduct1[Z1, string]("Ver") })
		}
		if c.Is("C04") {
			Derive(c, `ForShape2 with names from a reused buffer`, func() {
				names := []string{"ID", "Ver"}
				sh := optics.ForShape2[Z1, string, int32](names...)
				names[0], names[1] = "meta_id", "rev"
				sh2 := optics.ForShape2[Z1, string, int32](names...)
				names[0], names[1] = "nope", "nope"
				Shape2(c, `ForShape2 derived for ("ID", "Ver")`, sh, ownID, ver, strs, i32, fillZ1)
				Shape2(c, `ForShape2 derived for ("meta_id", "rev")`, sh2, metaID, rev, strs, i32, fillZ1)
			})
		}
		if c.Is("C03") {
			st, it := reflect.TypeOf(""), reflect.TypeOf(int32(0))
			Listing(c, []E[Z1]{
				{Name: "Z1Meta", Key: "Z1Meta", Type: reflect.TypeOf(Z1Meta{}), Anonymous: true, Addr: func(p *Z1) unsafe.Pointer { return unsafe.Pointer(&p.Z1Meta) }},
				{Name: "ID", Key: "meta_id", Type: st, Addr: func(p *Z1) unsafe.Pointer { return unsafe.Pointer(&p.Z1Meta.ID) }},
				{Name: "Rev", Key: "rev", Type: it, Addr: func(p *Z1) unsafe.Pointer { return unsafe.Pointer(&p.Z1Meta.Rev) }},
				{Name: "ID", Key: "ID", Type: st, Addr: func(p *Z1) unsafe.Pointer { return unsafe.Pointer(&p.ID) }},
				{Name: "Rev", Key: "Ver", Type: it, Addr: func(p *Z1) unsafe.Pointer { return unsafe.Pointer(&p.Rev) }},
				{Name: "Ver", Key: "Ver", Type: it, Addr: func(p *Z1) unsafe.Pointer { return unsafe.Pointer(&p.Ver) }},
				{Name: "Buf", Key: "Buf", Type: reflect.TypeOf([]byte(nil)), Addr: func(p *Z1) unsafe.Pointer { return unsafe.Pointer(&p.Buf) }},
				{Name: "Tags", Key: "labels", Type: reflect.TypeOf(Z1Tags(nil)), Addr: func(p *Z1) unsafe.Pointer { return unsafe.Pointer(&p.Tags) }},
			})
			TypeIs(c, `New[Z1]("ID", "Ver", "meta_id")`, func() hseq.Seq[Z1] { return hseq.New[Z1]("ID", "Ver", "meta_id") }, []int{3, 4, 1})
			names := []string{"Ver", "ID"}
			sel := hseq.New[Z1](names...)
			names[0], names[1] = "rev", "rev"
			TypeIs(c, `New[Z1]("Ver", "ID") after the caller overwrote its slice of names`, func() hseq.Seq[Z1] { return sel }, []int{4, 3})
		}
	}})
}
