package shapes

import (
	"reflect"
	"unsafe"

	"github.com/fogfish/golem/hseq"
	"github.com/fogfish/golem/optics"
)

// ---- Z1: tags that rename fields onto / away from other fields' Go names; names handed over in a reused buffer -----
// The tag, when present, IS the name. Z1Meta.ID is called "meta_id" (so "ID" is the container's own, later field and
// nothing else); the container's Rev is called "Ver" and comes before the field whose Go name is Ver (so "Ver" is Rev,
// and "Rev" names nothing); Z1Meta.Rev is called "rev".
type Z1Tags []string

type Z1Meta struct {
	ID  string `hseq:"meta_id"`
	Rev int32  `hseq:"rev,omitempty"`
}

type Z1 struct {
	Z1Meta
	ID   string
	Rev  int32 `hseq:"Ver"`
	Ver  int32
	Buf  []byte
	Tags Z1Tags `hseq:"labels"`
}

func fillZ1(p *Z1, k int) {
	p.Z1Meta = Z1Meta{ID: []string{"m0", "", "m2"}[k%3], Rev: int32(k + 100)}
	p.ID, p.Rev, p.Ver = []string{"own0", "own1", ""}[k%3], int32(k+200), int32(k+300)
	p.Buf = append(make([]byte, 0, 16), byte(k), 2)[:1+k%2]
	p.Tags = Z1Tags{"t"}
}

const z1Src = "type Z1Meta struct { ID string `hseq:\"meta_id\"`; Rev int32 `hseq:\"rev,omitempty\"` }\n" +
	"type Z1 struct { Z1Meta; ID string; Rev int32 `hseq:\"Ver\"`; Ver int32; Buf []byte; Tags Z1Tags `hseq:\"labels\"` }"

func init() {
	strs := []string{"", "x", "a longer one"}
	i32 := []int32{0, 1, -5}
	// slices with and without spare capacity, empty-but-not-nil included: the value of a slice field is its header
	bufs := [][]byte{nil, {}, append(make([]byte, 0, 32), 7, 8), {1, 2, 3}}
	ownID := func(p *Z1) *string { return &p.ID }
	metaID := func(p *Z1) *string { return &p.Z1Meta.ID }
	ver := func(p *Z1) *int32 { return &p.Rev } // the key "Ver" is the tag of Rev
	rev := func(p *Z1) *int32 { return &p.Z1Meta.Rev }
	buf := func(p *Z1) *[]byte { return &p.Buf }
	Register(Shape{Name: "Z1", Family: "renaming-tags", Source: z1Src, Run: func(c *Ctx) {
		if c.Is("C01") {
			Derive(c, `by name on Z1`, func() {
				Lens(c, `ForProduct1[Z1, string]("ID")`, optics.ForProduct1[Z1, string]("ID"), ownID, strs, fillZ1)
				Lens(c, `ForProduct1[Z1, string]("meta_id")`, optics.ForProduct1[Z1, string]("meta_id"), metaID, strs, fillZ1)
				Lens(c, `ForProduct1[Z1, int32]("Ver")`, optics.ForProduct1[Z1, int32]("Ver"), ver, i32, fillZ1)
				Lens(c, `ForProduct1[Z1, int32]("rev")`, optics.ForProduct1[Z1, int32]("rev"), rev, i32, fillZ1)
				Lens(c, `ForProduct1[Z1, []byte]("Buf")`, optics.ForProduct1[Z1, []byte]("Buf"), buf, bufs, fillZ1)
				Lens(c, `ForProduct1[Z1, []byte]()`, optics.ForProduct1[Z1, []byte](), buf, bufs, fillZ1)
				Reflector(c, `ForSpectrum1[Z1, []byte]("Buf")`, optics.ForSpectrum1[Z1, []byte]("Buf"), buf, bufs, fillZ1)
				Reflector(c, `ForSpectrum1[Z1, string]("meta_id")`, optics.ForSpectrum1[Z1, string]("meta_id"), metaID, strs, fillZ1)
			})
			Derive(c, `names handed over in a buffer that the caller reuses`, func() {
				// a derivation is complete when it returns: the caller's slice of names belongs to the caller, who
				// overwrites it for the next derivation before the first optic is ever used
				names := make([]string, 2, 4)
				names[0] = "ID"
				l1 := optics.ForProduct1[Z1, string](names[:1]...)
				r1 := optics.ForSpectrum1[Z1, string](names[:1]...)
				names[0] = "meta_id"
				l2 := optics.ForProduct1[Z1, string](names[:1]...)
				r2 := optics.ForSpectrum1[Z1, string](names[:1]...)
				names[0], names[1] = "Ver", "ID"
				a3, b3 := optics.ForProduct2[Z1, int32, string](names...)
				ra3, rb3 := optics.ForSpectrum2[Z1, int32, string](names...)
				names[0], names[1] = "rev", "meta_id"
				a4, b4 := optics.ForProduct2[Z1, int32, string](names...)
				names[0], names[1] = "nope", "Buf"
				Lens(c, `lens derived for "ID" (the buffer now says "nope")`, l1, ownID, strs, fillZ1)
				Reflector(c, `reflector derived for "ID" (the buffer now says "nope")`, r1, ownID, strs, fillZ1)
				Lens(c, `lens derived for "meta_id" (the buffer now says "nope")`, l2, metaID, strs, fillZ1)
				Reflector(c, `reflector derived for "meta_id" (the buffer now says "nope")`, r2, metaID, strs, fillZ1)
				Lens(c, `lens #0 derived for ("Ver", "ID")`, a3, ver, i32, fillZ1)
				Lens(c, `lens #1 derived for ("Ver", "ID")`, b3, ownID, strs, fillZ1)
				Reflector(c, `reflector #0 derived for ("Ver", "ID")`, ra3, ver, i32, fillZ1)
				Reflector(c, `reflector #1 derived for ("Ver", "ID")`, rb3, ownID, strs, fillZ1)
				Lens(c, `lens #0 derived for ("rev", "meta_id")`, a4, rev, i32, fillZ1)
				Lens(c, `lens #1 derived for ("rev", "meta_id")`, b4, metaID, strs, fillZ1)
			})
		}
		if c.Is("C02") {
			MustPanic(c, "unknown-name", `ForProduct1[Z1, int32]("Rev"): both fields called Rev in Go carry a tag, nothing is named "Rev"`, func() { optics.ForProduct1[Z1, int32]("Rev") })
			MustPanic(c, "unknown-name", `ForSpectrum1[Z1, Z1Tags]("Tags"): the field is named "labels"`, func() { optics.ForSpectrum1[Z1, Z1Tags]("Tags") })
			MustPanic(c, "unknown-name", `ForProduct2[Z1, string, int32]("ID", "Rev")`, func() { optics.ForProduct2[Z1, string, int32]("ID", "Rev") })
			MustPanic(c, "name-type-mismatch", `ForProduct1[Z1, string]("Ver"): "Ver" is the int32 field Rev`, func() { optics.ForProduct1[Z1, string]("Ver") })
		}
		if c.Is("C04") {
			Derive(c, `ForShape2 with names from a reused buffer`, func() {
				names := []string{"ID", "Ver"}
				sh := optics.ForShape2[Z1, string, int32](names...)
				names[0], names[1] = "meta_id", "rev"
				sh2 := optics.ForShape2[Z1, string, int32](names...)
				names[0], names[1] = "nope", "nope"
				Shape2(c, `ForShape2 derived for ("ID", "Ver")`, sh, ownID, ver, strs, i32, fillZ1)
				Shape2(c, `ForShape2 derived for ("meta_id", "rev")`, sh2, metaID, rev, strs, i32, fillZ1)
			})
		}
		if c.Is("C03") {
			st, it := reflect.TypeOf(""), reflect.TypeOf(int32(0))
			Listing(c, []E[Z1]{
				{Name: "Z1Meta", Key: "Z1Meta", Type: reflect.TypeOf(Z1Meta{}), Anonymous: true, Addr: func(p *Z1) unsafe.Pointer { return unsafe.Pointer(&p.Z1Meta) }},
				{Name: "ID", Key: "meta_id", Type: st, Addr: func(p *Z1) unsafe.Pointer { return unsafe.Pointer(&p.Z1Meta.ID) }},
				{Name: "Rev", Key: "rev", Type: it, Addr: func(p *Z1) unsafe.Pointer { return unsafe.Pointer(&p.Z1Meta.Rev) }},
				{Name: "ID", Key: "ID", Type: st, Addr: func(p *Z1) unsafe.Pointer { return unsafe.Pointer(&p.ID) }},
				{Name: "Rev", Key: "Ver", Type: it, Addr: func(p *Z1) unsafe.Pointer { return unsafe.Pointer(&p.Rev) }},
				{Name: "Ver", Key: "Ver", Type: it, Addr: func(p *Z1) unsafe.Pointer { return unsafe.Pointer(&p.Ver) }},
				{Name: "Buf", Key: "Buf", Type: reflect.TypeOf([]byte(nil)), Addr: func(p *Z1) unsafe.Pointer { return unsafe.Pointer(&p.Buf) }},
				{Name: "Tags", Key: "labels", Type: reflect.TypeOf(Z1Tags(nil)), Addr: func(p *Z1) unsafe.Pointer { return unsafe.Pointer(&p.Tags) }},
			})
			TypeIs(c, `New[Z1]("ID", "Ver", "meta_id")`, func() hseq.Seq[Z1] { return hseq.New[Z1]("ID", "Ver", "meta_id") }, []int{3, 4, 1})
			names := []string{"Ver", "ID"}
			sel := hseq.New[Z1](names...)
			names[0], names[1] = "rev", "rev"
			TypeIs(c, `New[Z1]("Ver", "ID") after the caller overwrote its slice of names`, func() hseq.Seq[Z1] { return sel }, []int{4, 3})
		}
	}})
}
