package shapes

import (
	"fmt"
	"math"
	"reflect"
	"sort"
	"strings"
	"unsafe"

	"github.com/fogfish/golem/optics"
)

// LensBy is the box oracle for an optic whose focus is not a plain field of type B (converted
// values, joins, shapes): assign performs the equivalent plain assignments on the twin, read
// the equivalent plain read.
func LensBy[S, B any](c *Ctx, label string, lens optics.Lens[S, B], assign func(*S, B), read func(*S) B, vals []B, fill func(*S, int)) {
	for i := range vals {
		for j := range vals {
			c.R.Evaluations++
			subj := newBox(fill, i%3)
			assign(&subj.v, vals[i])
			twin := twinOf(subj)
			if g := lens.Get(&subj.v); !reflect.DeepEqual(g, read(&subj.v)) {
				c.Viol("get", "%s: Get = %v, the plain read gives %v", label, g, read(&subj.v))
				return
			}
			ret := lens.Put(&subj.v, vals[j])
			assign(&twin.v, vals[j])
			if ret != &subj.v {
				c.Viol("put-return", "%s: Put returned %p, want the struct pointer %p", label, ret, &subj.v)
				return
			}
			if d := diff(subj, twin); d != "" {
				c.Viol("put-bytes", "%s: Put(%v) over %v: %s", label, vals[j], vals[i], d)
				return
			}
			if g := lens.Get(&subj.v); !reflect.DeepEqual(g, vals[j]) {
				c.Viol("putget", "%s: Get after Put(%v) = %v", label, vals[j], g)
				return
			}
			lens.Put(&subj.v, lens.Get(&subj.v))
			if d := diff(subj, twin); d != "" {
				c.Viol("getput", "%s: Put(Get(s)) changed the struct: %s", label, d)
				return
			}
			lens.Put(lens.Put(&subj.v, vals[i]), vals[j])
			if d := diff(subj, twin); d != "" {
				c.Viol("putput", "%s: Put(%v) then Put(%v) differs from Put(%v): %s", label, vals[i], vals[j], vals[j], d)
				return
			}
		}
	}
}

// Shape2 / Shape3 check a ShapeN lens against its component fields.
func Shape2[S, A, B any](c *Ctx, label string, l optics.Lens2[S, A, B], sa func(*S) *A, sb func(*S) *B, va []A, vb []B, fill func(*S, int)) {
	for i := range va {
		for j := range va {
			c.R.Evaluations++
			subj := newBox(fill, i)
			twin := twinOf(subj)
			ret := l.Put(&subj.v, va[j], vb[(j+1)%len(vb)])
			*sa(&twin.v), *sb(&twin.v) = va[j], vb[(j+1)%len(vb)]
			if ret != &subj.v {
				c.Viol("shape-return", "%s: Put did not return the struct pointer", label)
				return
			}
			if d := diff(subj, twin); d != "" {
				c.Viol("shape-put", "%s: Put differs from putting the two values through the component fields: %s", label, d)
				return
			}
			ga, gb := l.Get(&subj.v)
			if !reflect.DeepEqual(ga, *sa(&subj.v)) || !reflect.DeepEqual(gb, *sb(&subj.v)) {
				c.Viol("shape-get", "%s: Get = (%v, %v), the fields hold (%v, %v)", label, ga, gb, *sa(&subj.v), *sb(&subj.v))
				return
			}
		}
	}
}

func Shape3[S, A, B, C any](c *Ctx, label string, l optics.Lens3[S, A, B, C], sa func(*S) *A, sb func(*S) *B, sc func(*S) *C, va []A, vb []B, vc []C, fill func(*S, int)) {
	for i := range va {
		for j := range va {
			c.R.Evaluations++
			subj := newBox(fill, i)
			twin := twinOf(subj)
			ret := l.Put(&subj.v, va[j], vb[(j+1)%len(vb)], vc[(j+2)%len(vc)])
			*sa(&twin.v), *sb(&twin.v), *sc(&twin.v) = va[j], vb[(j+1)%len(vb)], vc[(j+2)%len(vc)]
			if ret != &subj.v {
				c.Viol("shape-return", "%s: Put did not return the struct pointer", label)
				return
			}
			if d := diff(subj, twin); d != "" {
				c.Viol("shape-put", "%s: Put differs from putting the three values through the component fields: %s", label, d)
				return
			}
			ga, gb, gc := l.Get(&subj.v)
			if !reflect.DeepEqual(ga, *sa(&subj.v)) || !reflect.DeepEqual(gb, *sb(&subj.v)) || !reflect.DeepEqual(gc, *sc(&subj.v)) {
				c.Viol("shape-get", "%s: Get = (%v, %v, %v), the fields hold (%v, %v, %v)", label, ga, gb, gc, *sa(&subj.v), *sb(&subj.v), *sc(&subj.v))
				return
			}
		}
	}
}

// ---- fixed structures for BiMap / Getter / Setter / ShapeN / Iso ------------

type NameStr string
type Bytes []byte
type I16 int16
type F32 float32
type I64 int64

type conv struct {
	Pre  int8
	S    NameStr
	Y    Bytes
	I    I16 `hseq:"num"`
	f    F32
	W    I64
	Post [3]byte
}

func fillConv(p *conv, k int) {
	*p = conv{Pre: int8(k + 1), S: NameStr([]string{"", "a", "bcd"}[k]), Y: [][]byte{nil, {1}, {2, 3}}[k], I: I16(k * 100), f: F32(k) + 0.5, W: I64(k) << 40, Post: [3]byte{7, 8, 9}}
}

var interned = map[string]string{}

// copyPtrLens focuses on W through a pointer to a copy; derefLens reads and writes through such a pointer.
type copyPtrLens struct{}

func (copyPtrLens) Get(s *conv) *I64 { v := s.W; return &v }
func (copyPtrLens) Put(s *conv, a *I64) *conv {
	s.W = *a
	return s
}

type derefLens struct{}

func (derefLens) Get(s **I64) int { return int(**s) }
func (derefLens) Put(s **I64, b int) **I64 {
	**s = I64(b)
	return s
}

func asPtr[T, F any](p *F) *T { return (*T)(unsafe.Pointer(p)) }

// H9: int32 fields separated by bools - homogeneous, so the names are chosen at run time.
type H9 struct {
	F0 int32
	B0 bool
	F1 int32
	B1 bool
	F2 int32 `hseq:"two"`
	B2 bool
	F3 int32
	B3 bool
	f4 int32
	B4 bool
	F5 int32
	B5 bool
	F6 int32 `hseq:"six,opt"`
	B6 bool
	F7 int32
	B7 bool
	F8 int32
}

var h9Names = []string{"F0", "F1", "two", "F3", "f4", "F5", "six", "F7", "F8"}

func h9Ptr(p *H9, i int) *int32 {
	return []*int32{&p.F0, &p.F1, &p.F2, &p.F3, &p.f4, &p.F5, &p.F6, &p.F7, &p.F8}[i]
}

func fillH9(p *H9, k int) {
	for i := 0; i < 9; i++ {
		*h9Ptr(p, i) = int32(100*k + i)
	}
	p.B0, p.B2, p.B4, p.B6 = true, true, true, true
}

// shapeH9 derives ForShapeN[H9, int32...] for the given names and checks Put/Get positionally.
func shapeH9(c *Ctx, idx []int) {
	n := len(idx)
	names := make([]string, n, n+3) // spare capacity on purpose
	for i, x := range idx {
		names[i] = h9Names[x]
	}
	vals := make([]int32, n)
	for i := range vals {
		vals[i] = int32(7000 + i)
	}
	c.R.Evaluations++
	subj := newBox(fillH9, 1)
	twin := twinOf(subj)
	var got []int32
	var ret *H9
	label := fmt.Sprintf("ForShape%d[H9, int32...](%s)", n, strings.Join(names, ", "))
	p := catch(func() {
		switch n {
		case 2:
			l := optics.ForShape2[H9, int32, int32](names...)
			ret = l.Put(&subj.v, vals[0], vals[1])
			a, b := l.Get(&subj.v)
			got = []int32{a, b}
		case 3:
			l := optics.ForShape3[H9, int32, int32, int32](names...)
			ret = l.Put(&subj.v, vals[0], vals[1], vals[2])
			a, b, cc := l.Get(&subj.v)
			got = []int32{a, b, cc}
		case 4:
			l := optics.ForShape4[H9, int32, int32, int32, int32](names...)
			ret = l.Put(&subj.v, vals[0], vals[1], vals[2], vals[3])
			a, b, cc, d := l.Get(&subj.v)
			got = []int32{a, b, cc, d}
		case 5:
			l := optics.ForShape5[H9, int32, int32, int32, int32, int32](names...)
			ret = l.Put(&subj.v, vals[0], vals[1], vals[2], vals[3], vals[4])
			a, b, cc, d, e := l.Get(&subj.v)
			got = []int32{a, b, cc, d, e}
		case 6:
			l := optics.ForShape6[H9, int32, int32, int32, int32, int32, int32](names...)
			ret = l.Put(&subj.v, vals[0], vals[1], vals[2], vals[3], vals[4], vals[5])
			a, b, cc, d, e, f := l.Get(&subj.v)
			got = []int32{a, b, cc, d, e, f}
		case 7:
			l := optics.ForShape7[H9, int32, int32, int32, int32, int32, int32, int32](names...)
			ret = l.Put(&subj.v, vals[0], vals[1], vals[2], vals[3], vals[4], vals[5], vals[6])
			a, b, cc, d, e, f, g := l.Get(&subj.v)
			got = []int32{a, b, cc, d, e, f, g}
		case 8:
			l := optics.ForShape8[H9, int32, int32, int32, int32, int32, int32, int32, int32](names...)
			ret = l.Put(&subj.v, vals[0], vals[1], vals[2], vals[3], vals[4], vals[5], vals[6], vals[7])
			a, b, cc, d, e, f, g, h := l.Get(&subj.v)
			got = []int32{a, b, cc, d, e, f, g, h}
		case 9:
			l := optics.ForShape9[H9, int32, int32, int32, int32, int32, int32, int32, int32, int32](names...)
			ret = l.Put(&subj.v, vals[0], vals[1], vals[2], vals[3], vals[4], vals[5], vals[6], vals[7], vals[8])
			a, b, cc, d, e, f, g, h, i := l.Get(&subj.v)
			got = []int32{a, b, cc, d, e, f, g, h, i}
		}
	})
	if p != nil {
		c.Viol("shape-panic", "%s panicked: %v", label, short(p))
		return
	}
	for i, x := range idx {
		*h9Ptr(&twin.v, x) = vals[i]
	}
	if ret != &subj.v {
		c.Viol("shape-return", "%s: Put did not return the struct pointer", label)
		return
	}
	if d := diff(subj, twin); d != "" {
		c.Viol("shape-put", "%s: Put(%v) differs from putting the values one by one through the fields %v: %s", label, vals, names, d)
		return
	}
	if fmt.Sprint(got) != fmt.Sprint(vals) {
		c.Viol("shape-get", "%s: Get = %v after Put(%v)", label, got, vals)
	}
}

func perms(n, k int, f func([]int)) {
	used := make([]bool, n)
	var rec func(p []int)
	rec = func(p []int) {
		if len(p) == k {
			f(p)
			return
		}
		for i := 0; i < n; i++ {
			if !used[i] {
				used[i] = true
				rec(append(p, i))
				used[i] = false
			}
		}
	}
	rec(nil)
}

// ---- Join: a joined lens holds no state between (or during) its calls ----------

type reOut struct {
	Pre  int8
	A    reIn
	Post int8
}

type reIn struct {
	X int32
	Y int32
}

// reLens is a user-defined Lens[reIn, int32] on Y that, while it is inside Put or Get, uses the joined lens it is
// a part of on another structure (a callback into the same optic, as a lens over a cache or a logger might do).
type reLens struct {
	base   optics.Lens[reIn, int32]
	joined *optics.Lens[reOut, int32]
	other  *reOut
	busy   bool
}

func (l *reLens) Put(s *reIn, v int32) *reIn {
	if !l.busy {
		l.busy = true
		(*l.joined).Put(l.other, 77)
		l.busy = false
	}
	return l.base.Put(s, v)
}

func (l *reLens) Get(s *reIn) int32 {
	if !l.busy {
		l.busy = true
		(*l.joined).Get(l.other)
		l.busy = false
	}
	return l.base.Get(s)
}

func joinReentrant(c *Ctx) {
	fill := func(p *reOut, k int) {
		*p = reOut{Pre: int8(k + 1), A: reIn{X: int32(100 + k), Y: int32(200 + k)}, Post: int8(-k - 1)}
	}
	for k := 0; k < 3; k++ {
		c.R.Evaluations++
		subj, other := newBox(fill, k), newBox(fill, (k+1)%3)
		st, ot := twinOf(subj), twinOf(other)
		var joined optics.Lens[reOut, int32]
		inner := &reLens{base: optics.ForProduct1[reIn, int32]("Y"), joined: &joined, other: &other.v}
		joined = optics.Join[reOut, reIn, int32](optics.ForProduct1[reOut, reIn]("A"), inner)
		joined.Put(&subj.v, 5)
		st.v.A.Y, ot.v.A.Y = 5, 77
		if d := diff(subj, st); d != "" {
			c.Viol("join-reentrant", "Join(A, Y).Put(s, 5) while the inner lens uses the same joined lens on another structure: s differs from the plain assignment: %s", d)
			return
		}
		if d := diff(other, ot); d != "" {
			c.Viol("join-reentrant", "Join(A, Y).Put(other, 77) made from inside the inner lens: the other structure differs from the plain assignment: %s", d)
			return
		}
		if g := joined.Get(&subj.v); g != 5 {
			c.Viol("join-reentrant", "Join(A, Y).Get(s) = %d while the inner lens reads another structure through the same joined lens, want 5", g)
			return
		}
	}
}

// ---- Iso / Morphism ---------------------------------------------------------

type isoS struct {
	X   int32
	pad int8
	Y   string
	Z   [3]byte
	Own int64
}

type isoT struct {
	Own1 bool
	Z    [3]byte
	Y    string
	Own2 int16
	X    int32
}

func fillS(p *isoS, k int) {
	*p = isoS{X: int32(10 + k), pad: int8(k), Y: []string{"s0", "s1", "s2"}[k], Z: [3]byte{byte(k), 1, 2}, Own: int64(k) << 33}
}
func fillT(p *isoT, k int) {
	*p = isoT{Own1: k%2 == 0, Z: [3]byte{9, byte(k), 9}, Y: []string{"t0", "t1", "t2"}[k], Own2: int16(-k), X: int32(-100 - k)}
}

type isoList struct {
	elems []optics.Isomorphism[isoS, isoT]
	cover [3]bool // which of X, Y, Z are transferred
	name  string
}

func isoFamily(c *Ctx, maxLen int) {
	sx, sy, sz := optics.ForProduct3[isoS, int32, string, [3]byte]()
	tz, ty, tx := optics.ForProduct3[isoT, [3]byte, string, int32]()
	i1, i2, i3 := optics.Iso(sx, tx), optics.Iso(sy, ty), optics.Iso(sz, tz)
	type el struct {
		name  string
		mk    func() optics.Isomorphism[isoS, isoT]
		cover [3]bool
	}
	alphabet := []el{
		{"nil", func() optics.Isomorphism[isoS, isoT] { return nil }, [3]bool{}},
		{"iX", func() optics.Isomorphism[isoS, isoT] { return i1 }, [3]bool{true, false, false}},
		{"iY", func() optics.Isomorphism[isoS, isoT] { return i2 }, [3]bool{false, true, false}},
		{"iZ", func() optics.Isomorphism[isoS, isoT] { return i3 }, [3]bool{false, false, true}},
		{"M(iX,iY)", func() optics.Isomorphism[isoS, isoT] { return optics.Morphism(i1, i2) }, [3]bool{true, true, false}},
		{"M(nil,iZ)", func() optics.Isomorphism[isoS, isoT] { return optics.Morphism(nil, i3) }, [3]bool{false, false, true}},
	}
	var rec func(p []int)
	rec = func(p []int) {
		if len(c.R.Viols) > 0 {
			return
		}
		var names []string
		var cover [3]bool
		list := make([]optics.Isomorphism[isoS, isoT], 0, len(p)+2) // spare capacity on purpose
		for _, k := range p {
			e := alphabet[k]
			names = append(names, e.name)
			list = append(list, e.mk())
			for i := range cover {
				cover[i] = cover[i] || e.cover[i]
			}
		}
		label := "Morphism(" + strings.Join(names, ", ") + ")"
		keep := append([]optics.Isomorphism[isoS, isoT]{}, list...)
		for round := 0; round < 2; round++ { // the same argument slice is used twice
			c.R.Evaluations++
			var m optics.Isomorphism[isoS, isoT]
			if pn := catch(func() { m = optics.Morphism(list...) }); pn != nil {
				c.Viol("morphism-panic", "%s panicked: %v", label, short(pn))
				return
			}
			for i := range keep {
				if !reflect.DeepEqual(keep[i], list[i]) || (keep[i] == nil) != (list[i] == nil) {
					c.Viol("morphism-arg", "%s modified the caller's argument slice at position %d", label, i)
					return
				}
			}
			s, t := newBox(fillS, 1), newBox(fillT, 2)
			s0, t0 := twinOf(s), twinOf(t)
			if pn := catch(func() { m.Forward(&s.v, &t.v) }); pn != nil {
				c.Viol("morphism-panic", "%s.Forward panicked: %v", label, short(pn))
				return
			}
			if cover[0] {
				t0.v.X = s0.v.X
			}
			if cover[1] {
				t0.v.Y = s0.v.Y
			}
			if cover[2] {
				t0.v.Z = s0.v.Z
			}
			if d := diff(s, s0); d != "" {
				c.Viol("forward-source", "%s.Forward changed the source: %s", label, d)
				return
			}
			if d := diff(t, t0); d != "" {
				c.Viol("forward-target", "%s.Forward: target differs from copying exactly the foci %v: %s", label, cover, d)
				return
			}
			// Inverse into a source that holds other values restores the covered foci and nothing else
			s2 := newBox(fillS, 0)
			s20 := twinOf(s2)
			if pn := catch(func() { m.Inverse(&t.v, &s2.v) }); pn != nil {
				c.Viol("morphism-panic", "%s.Inverse panicked: %v", label, short(pn))
				return
			}
			if cover[0] {
				s20.v.X = s0.v.X
			}
			if cover[1] {
				s20.v.Y = s0.v.Y
			}
			if cover[2] {
				s20.v.Z = s0.v.Z
			}
			if d := diff(s2, s20); d != "" {
				c.Viol("inverse", "%s: Forward then Inverse does not restore exactly the source foci %v: %s", label, cover, d)
				return
			}
			if d := diff(t, t0); d != "" {
				c.Viol("inverse-target", "%s.Inverse changed the target: %s", label, d)
				return
			}
		}
		if len(p) == maxLen {
			return
		}
		for k := range alphabet {
			rec(append(append([]int{}, p...), k))
		}
	}
	rec(nil)
}

// isoSame: both sides of the isos are the same struct type and the same fields (copying selected fields
// between two values of one type).
func isoSame(c *Ctx, maxLen int) {
	lx, ly, lz := optics.ForProduct3[isoS, int32, string, [3]byte]()
	isos := []optics.Isomorphism[isoS, isoS]{nil, optics.Iso(lx, lx), optics.Iso(ly, ly), optics.Iso(lz, lz)}
	names := []string{"nil", "iX", "iY", "iZ"}
	var rec func(p []int)
	rec = func(p []int) {
		if len(c.R.Viols) > 0 {
			return
		}
		var cover [3]bool
		var list []optics.Isomorphism[isoS, isoS]
		var ns []string
		for _, k := range p {
			list = append(list, isos[k])
			ns = append(ns, names[k])
			if k > 0 {
				cover[k-1] = true
			}
		}
		label := "same-type Morphism(" + strings.Join(ns, ", ") + ")"
		c.R.Evaluations++
		m := optics.Morphism(list...)
		if len(p) == 1 && p[0] > 0 {
			m, label = isos[p[0]], "same-type Iso "+names[p[0]]
		}
		a, b := newBox(fillS, 1), newBox(fillS, 2)
		a0, b0 := twinOf(a), twinOf(b)
		m.Forward(&a.v, &b.v)
		if cover[0] {
			b0.v.X = a0.v.X
		}
		if cover[1] {
			b0.v.Y = a0.v.Y
		}
		if cover[2] {
			b0.v.Z = a0.v.Z
		}
		if d := diff(a, a0); d != "" {
			c.Viol("forward-source", "%s.Forward changed the source: %s", label, d)
			return
		}
		if d := diff(b, b0); d != "" {
			c.Viol("forward-target", "%s.Forward: target differs from copying exactly the foci %v: %s", label, cover, d)
			return
		}
		a2 := newBox(fillS, 0)
		a20 := twinOf(a2)
		m.Inverse(&b.v, &a2.v)
		if cover[0] {
			a20.v.X = a0.v.X
		}
		if cover[1] {
			a20.v.Y = a0.v.Y
		}
		if cover[2] {
			a20.v.Z = a0.v.Z
		}
		if d := diff(a2, a20); d != "" {
			c.Viol("inverse", "%s: Forward then Inverse does not restore exactly the source foci %v: %s", label, cover, d)
			return
		}
		if len(p) == maxLen {
			return
		}
		for k := range isos {
			rec(append(append([]int{}, p...), k))
		}
	}
	rec(nil)
}

func init() {
	Register(Shape{Name: "X-bimap", Family: "bimap", Source: "type conv struct { Pre int8; S NameStr; Y Bytes; I I16 `hseq:\"num\"`; f F32; W I64; Post [3]byte }", Run: func(c *Ctx) {
		if !c.Is("C04") {
			return
		}
		Derive(c, "BiMapS", func() {
			LensBy(c, "BiMapS[conv, NameStr, string](\"S\")", optics.BiMapS[conv, NameStr, string]("S"), func(p *conv, b string) { p.S = NameStr(b) }, func(p *conv) string { return string(p.S) }, []string{"", "x", "a longer one"}, fillConv)
			LensBy(c, "BiMapS[conv, NameStr, string]() by type", optics.BiMapS[conv, NameStr, string](), func(p *conv, b string) { p.S = NameStr(b) }, func(p *conv) string { return string(p.S) }, []string{"", "x", "yz"}, fillConv)
		})
		Derive(c, "BiMapB", func() {
			LensBy(c, "BiMapB[conv, Bytes, []byte](\"Y\")", optics.BiMapB[conv, Bytes, []byte]("Y"), func(p *conv, b []byte) { p.Y = Bytes(b) }, func(p *conv) []byte { return []byte(p.Y) }, [][]byte{nil, {1}, {2, 3, 4}}, fillConv)
		})
		Derive(c, "BiMapI", func() {
			LensBy(c, "BiMapI[conv, I16, int](\"num\")", optics.BiMapI[conv, I16, int]("num"), func(p *conv, b int) { p.I = I16(b) }, func(p *conv) int { return int(p.I) }, []int{0, -3, 32000}, fillConv)
			LensBy(c, "BiMapI[conv, I64, int32](\"W\")", optics.BiMapI[conv, I64, int32]("W"), func(p *conv, b int32) { p.W = I64(b) }, func(p *conv) int32 { return int32(p.W) }, []int32{0, -3, 1 << 30}, fillConv)
		})
		Derive(c, "BiMapI over the whole range of int64", func() {
			LensBy(c, "BiMapI[conv, I64, int64](\"W\")", optics.BiMapI[conv, I64, int64]("W"), func(p *conv, b int64) { p.W = I64(b) }, func(p *conv) int64 { return int64(p.W) }, []int64{math.MaxInt64, 1<<53 + 1, math.MinInt64 + 1, 1_700_000_000_123_456_789}, fillConv)
		})
		Derive(c, "Join over a BiMap", func() {
			// the inner optic of a Join is a converting lens, not a field lens: Put goes through the conversion and is written back
			type wrap struct {
				Pre int8
				In  conv
				Z   int16
			}
			fillWrap := func(p *wrap, k int) { p.Pre, p.Z = int8(k+1), int16(-k-1); fillConv(&p.In, k) }
			j := optics.Join(optics.ForProduct1[wrap, conv]("In"), optics.BiMapS[conv, NameStr, string]("S"))
			LensBy(c, "Join(In, BiMapS(S))", j, func(p *wrap, b string) { p.In.S = NameStr(b) }, func(p *wrap) string { return string(p.In.S) }, []string{"", "x", "a longer one"}, fillWrap)
			ji := optics.Join(optics.ForProduct1[wrap, conv]("In"), optics.BiMapI[conv, I16, int]("num"))
			LensBy(c, "Join(In, BiMapI(num))", ji, func(p *wrap, b int) { p.In.I = I16(b) }, func(p *wrap) int { return int(p.In.I) }, []int{0, -3, 32000}, fillWrap)
			jb := optics.Join(optics.ForProduct1[wrap, conv]("In"), optics.BiMap(optics.ForProduct1[conv, I64]("W"), func(a I64) int { return int(a) + 273 }, func(b int) I64 { return I64(b - 273) }))
			LensBy(c, "Join(In, BiMap(W, +273, -273))", jb, func(p *wrap, b int) { p.In.W = I64(b - 273) }, func(p *wrap) int { return int(p.In.W) + 273 }, []int{0, 273, 5}, fillWrap)
		})
		Derive(c, "Join whose intermediate focus is a reference (map, pointer) computed by the outer optic", func() {
			// the outer optic decodes a map from a text field / hands out a pointer to a copy: what Join reads is a fresh
			// value every time, so the inner update counts only if Join writes the intermediate value back
			dec := func(a NameStr) map[string]int {
				m := map[string]int{}
				for _, kv := range strings.Split(string(a), ",") {
					var k string
					var v int
					if n, _ := fmt.Sscanf(strings.ReplaceAll(kv, "=", " "), "%s %d", &k, &v); n == 2 {
						m[k] = v
					}
				}
				return m
			}
			enc := func(m map[string]int) NameStr {
				var ks []string
				for k := range m {
					ks = append(ks, k)
				}
				sort.Strings(ks)
				var parts []string
				for _, k := range ks {
					parts = append(parts, fmt.Sprintf("%s=%d", k, m[k]))
				}
				// equal texts share their storage, so that the byte comparison of subject and twin sees equal string headers
				t := strings.Join(parts, ",")
				if u, ok := interned[t]; ok {
					return NameStr(u)
				}
				interned[t] = t
				return NameStr(t)
			}
			fillKV := func(p *conv, k int) { fillConv(p, k); p.S = NameStr([]string{"", "a=1", "a=7,b=2"}[k]) }
			for _, key := range []string{"a", "b"} {
				key := key
				jm := optics.Join(optics.BiMap(optics.ForProduct1[conv, NameStr]("S"), dec, enc), optics.NewLensM[map[string]int, string, int](key))
				LensBy(c, fmt.Sprintf("Join(BiMap(S, decode, encode), NewLensM(%q))", key), jm,
					func(p *conv, b int) { m := dec(p.S); m[key] = b; p.S = enc(m) }, func(p *conv) int { return dec(p.S)[key] }, []int{5, -1, 12}, fillKV)
			}
			jp := optics.Join[conv, *I64, int](copyPtrLens{}, derefLens{})
			LensBy(c, "Join(<lens handing out a pointer to a copy of W>, <lens through that pointer>)", jp,
				func(p *conv, b int) { p.W = I64(b) }, func(p *conv) int { return int(p.W) }, []int{0, -3, 1 << 30}, fillConv)
		})
		Derive(c, "BiMapF", func() {
			LensBy(c, "BiMapF[conv, F32, float64](\"f\")", optics.BiMapF[conv, F32, float64]("f"), func(p *conv, b float64) { p.f = F32(b) }, func(p *conv) float64 { return float64(p.f) }, []float64{0, -1.5, 1024.25}, fillConv)
		})
		Derive(c, "BiMap with inverse functions", func() {
			l := optics.BiMap(optics.ForProduct1[conv, I16]("num"), func(a I16) string { return fmt.Sprint(int(a) - 7) }, func(b string) I16 { var n int; fmt.Sscan(b, &n); return I16(n + 7) })
			LensBy(c, "BiMap(num, a-7 as text, text+7)", l, func(p *conv, b string) { var n int; fmt.Sscan(b, &n); p.I = I16(n + 7) }, func(p *conv) string { return fmt.Sprint(int(p.I) - 7) }, []string{"0", "-40", "31000"}, fillConv)
		})
		Derive(c, "BiMap with inverse functions that do not fix zero", func() {
			// kelvin = celsius + 273: neither zero maps to zero; every value, the two zeros included, goes through the conversion
			l := optics.BiMap(optics.ForProduct1[conv, I64]("W"), func(a I64) int { return int(a) + 273 }, func(b int) I64 { return I64(b - 273) })
			LensBy(c, "BiMap(W, a+273, b-273)", l, func(p *conv, b int) { p.W = I64(b - 273) }, func(p *conv) int { return int(p.W) + 273 }, []int{0, 273, 5, -273}, fillConv)
			t := optics.BiMap(optics.ForProduct1[conv, I16]("num"), func(a I16) string { return fmt.Sprint(int(a) - 7) }, func(b string) I16 { var n int; fmt.Sscan(b, &n); return I16(n + 7) })
			LensBy(c, "BiMap(num, a-7 as text, text+7) around the zero of the field", t, func(p *conv, b string) { var n int; fmt.Sscan(b, &n); p.I = I16(n + 7) }, func(p *conv) string { return fmt.Sprint(int(p.I) - 7) }, []string{"-7", "0", "-8"}, fillConv)
			n := optics.BiMap(optics.ForProduct1[conv, I16]("num"), func(a I16) bool { return a == 0 }, func(b bool) I16 {
				if b {
					return 0
				}
				return 1
			})
			LensBy(c, "BiMap(num, a==0, b?0:1)", n, func(p *conv, b bool) {
				if b {
					p.I = 0
				} else {
					p.I = 1
				}
			}, func(p *conv) bool { return p.I == 0 }, []bool{false, true}, fillConv)
		})
		Derive(c, "Join used re-entrantly", func() { joinReentrant(c) })
		Derive(c, "Getter / Setter", func() {
			g := optics.Getter(optics.ForProduct1[conv, I16]("num"), func(a I16) string { return fmt.Sprint(a) })
			st := optics.Setter(optics.ForProduct1[conv, I16]("num"), func(b string) I16 { return I16(len(b)) })
			for k := 0; k < 3; k++ {
				c.R.Evaluations++
				subj := newBox(fillConv, k)
				twin := twinOf(subj)
				if got := g.Get(&subj.v); got != fmt.Sprint(subj.v.I) {
					c.Viol("getter-get", "Getter.Get = %q, want %q", got, fmt.Sprint(subj.v.I))
				}
				if ret := g.Put(&subj.v, "12345"); ret != &subj.v {
					c.Viol("getter-put", "Getter.Put did not return the struct pointer")
				}
				if d := diff(subj, twin); d != "" {
					c.Viol("getter-put", "Getter.Put wrote: %s", d)
				}
				st.Put(&subj.v, "four")
				twin.v.I = 4
				if d := diff(subj, twin); d != "" {
					c.Viol("setter-put", "Setter.Put(\"four\") differs from assigning the converted value 4: %s", d)
				}
			}
		})
	}})
	Register(Shape{Name: "X-shape-h9", Family: "shape", Source: "type H9 struct { F0 int32; B0 bool; F1 int32; B1 bool; F2 int32 `hseq:\"two\"`; ...; F6 int32 `hseq:\"six,opt\"`; ...; F8 int32 } // ForShapeN[H9, int32 x N](names...)", Run: func(c *Ctx) {
		if !c.Is("C04") {
			return
		}
		maxN := 4
		if c.Tier == "thorough" {
			maxN = 7
		}
		for n := 2; n <= maxN; n++ {
			perms(9, n, func(p []int) {
				if len(c.R.Viols) == 0 {
					shapeH9(c, p)
				}
			})
		}
		for n := maxN + 1; n <= 9; n++ { // the larger arities: identity, reversed and two rotations
			id := make([]int, n)
			rev := make([]int, n)
			r1 := make([]int, n)
			r2 := make([]int, n)
			for i := range id {
				id[i], rev[i], r1[i], r2[i] = i, n-1-i, (i+1)%n, (i+4)%9
			}
			shapeH9(c, id)
			shapeH9(c, rev)
			shapeH9(c, r1)
			if n == 9 {
				shapeH9(c, r2)
			}
		}
	}})
	Register(Shape{Name: "X-map", Family: "maplens", Source: "optics.NewLensM[map[string]int, string, int](key) over all maps with keys in {a,b,c}", Run: func(c *Ctx) {
		if !c.Is("C04") {
			return
		}
		keys := []string{"a", "b", "c"}
		for mask := 0; mask < 8; mask++ {
			for _, k := range []string{"a", "b", "c", "d", ""} {
				for _, v := range []int{0, 5, -1} {
					c.R.Evaluations++
					m, ref := map[string]int{}, map[string]int{}
					for i, kk := range keys {
						if mask&(1<<i) != 0 {
							m[kk], ref[kk] = 10+i, 10+i
						}
					}
					l := optics.NewLensM[map[string]int, string, int](k)
					if g := l.Get(&m); g != ref[k] {
						c.Viol("map-get", "NewLensM(%q).Get = %d on %v", k, g, ref)
					}
					mp := &m
					if ret := l.Put(mp, v); ret != mp {
						c.Viol("map-put", "NewLensM(%q).Put did not return the map pointer", k)
					}
					ref[k] = v
					if !reflect.DeepEqual(m, ref) {
						c.Viol("map-put", "NewLensM(%q).Put(%d): map is %v, want %v (only the key may change)", k, v, m, ref)
					}
				}
			}
		}
	}})
	Register(Shape{Name: "X-iso", Family: "iso", Source: "type isoS struct { X int32; pad int8; Y string; Z [3]byte; Own int64 }\ntype isoT struct { Own1 bool; Z [3]byte; Y string; Own2 int16; X int32 }\n// all lists over {nil, iX, iY, iZ, Morphism(iX,iY), Morphism(nil,iZ)} between isoS and isoT; all lists of length <= 3 over {nil, iX, iY, iZ} between two values of isoS", Run: func(c *Ctx) {
		if !c.Is("C04") {
			return
		}
		n := 4
		if c.Tier == "thorough" {
			n = 5
		}
		isoFamily(c, n)
		isoSame(c, 3)
		isoShared(c)
	}})
}

// ---- morphisms that share a nested morphism ------------------------------------

type isoW struct {
	A  int32
	p1 int8
	B  int32
	C  int32
	p2 int16
	D  int32
	E  int32
	F  int32
}

type isoV struct {
	F  int32
	q1 int8
	E  int32
	D  int32
	C  int32
	q2 int64
	B  int32
	A  int32
}

func fillW(p *isoW, k int) {
	b := int32(100 * (k + 1))
	*p = isoW{A: b + 1, p1: int8(k), B: b + 2, C: b + 3, p2: int16(k), D: b + 4, E: b + 5, F: b + 6}
}
func fillV(p *isoV, k int) {
	b := int32(-100 * (k + 1))
	*p = isoV{A: b - 1, q1: int8(k), B: b - 2, C: b - 3, q2: int64(k), D: b - 4, E: b - 5, F: b - 6}
}

func wField(p *isoW, i int) *int32 { return []*int32{&p.A, &p.B, &p.C, &p.D, &p.E, &p.F}[i] }
func vField(p *isoV, i int) *int32 { return []*int32{&p.A, &p.B, &p.C, &p.D, &p.E, &p.F}[i] }

// isoShared: a morphism used as an entry of several other morphisms. Every base morphism over 1..4 distinct isos
// (in every order) is built once and then used as the leading (and as the trailing) entry of two further morphisms
// with one more iso each; all of them are constructed first and evaluated afterwards, base last, so that a
// construction that scribbles on a morphism built earlier is seen.
func isoShared(c *Ctx) {
	names := []string{"A", "B", "C", "D", "E", "F"}
	var isos []optics.Isomorphism[isoW, isoV]
	for _, n := range names {
		isos = append(isos, optics.Iso(optics.ForProduct1[isoW, int32](n), optics.ForProduct1[isoV, int32](n)))
	}
	eval := func(label string, m optics.Isomorphism[isoW, isoV], cover uint) bool {
		c.R.Evaluations++
		w, v := newBox(fillW, 1), newBox(fillV, 2)
		w0, v0 := twinOf(w), twinOf(v)
		if pn := catch(func() { m.Forward(&w.v, &v.v) }); pn != nil {
			c.Viol("morphism-panic", "%s.Forward panicked: %v", label, short(pn))
			return false
		}
		for i := range names {
			if cover&(1<<i) != 0 {
				*vField(&v0.v, i) = *wField(&w0.v, i)
			}
		}
		if d := diff(w, w0); d != "" {
			c.Viol("forward-source", "%s.Forward changed the source: %s", label, d)
			return false
		}
		if d := diff(v, v0); d != "" {
			c.Viol("forward-target", "%s.Forward: target differs from copying exactly its foci: %s", label, d)
			return false
		}
		w2 := newBox(fillW, 0)
		w20 := twinOf(w2)
		if pn := catch(func() { m.Inverse(&v.v, &w2.v) }); pn != nil {
			c.Viol("morphism-panic", "%s.Inverse panicked: %v", label, short(pn))
			return false
		}
		for i := range names {
			if cover&(1<<i) != 0 {
				*wField(&w20.v, i) = *wField(&w0.v, i)
			}
		}
		if d := diff(w2, w20); d != "" {
			c.Viol("inverse", "%s: Forward then Inverse does not restore exactly the source foci: %s", label, d)
			return false
		}
		return true
	}
	var rec func(p []int, used uint)
	rec = func(p []int, used uint) {
		if len(c.R.Viols) > 0 {
			return
		}
		if len(p) > 0 {
			var list []optics.Isomorphism[isoW, isoV]
			var ns []string
			for _, k := range p {
				list = append(list, isos[k])
				ns = append(ns, names[k])
			}
			bl := "Morphism(" + strings.Join(ns, ", ") + ")"
			base := optics.Morphism(list...)
			for d := range names {
				for e := range names {
					if used&(1<<d) != 0 || used&(1<<e) != 0 || d == e {
						continue
					}
					m1 := optics.Morphism(base, isos[d])
					m2 := optics.Morphism(base, isos[e])
					m3 := optics.Morphism(isos[d], base)
					m4 := optics.Morphism(nil, base, nil, isos[e])
					m5 := optics.Morphism(m1, isos[e])
					ok := eval("Morphism(base, "+names[d]+") with base = "+bl+", after Morphism(base, "+names[e]+") was built", m1, used|1<<d) &&
						eval("Morphism(base, "+names[e]+") with base = "+bl, m2, used|1<<e) &&
						eval("Morphism("+names[d]+", base) with base = "+bl, m3, used|1<<d) &&
						eval("Morphism(nil, base, nil, "+names[e]+") with base = "+bl, m4, used|1<<e) &&
						eval("Morphism(Morphism(base, "+names[d]+"), "+names[e]+") with base = "+bl, m5, used|1<<d|1<<e) &&
						eval(bl+" after it was used inside other morphisms", base, used)
					if !ok {
						return
					}
				}
			}
		}
		if len(p) == 4 {
			return
		}
		for k := range names {
			if used&(1<<k) == 0 {
				rec(append(append([]int{}, p...), k), used|1<<k)
			}
		}
	}
	rec(nil, 0)
}

// ---- M9: nine fields of nine distinct named types over all layout classes -----

type M9a bool
type M9b int16
type M9c [3]byte
type M9d int32
type M9e *int
type M9f string
type M9g []byte
type M9h any
type M9i float64

type M9 struct {
	A M9a
	B M9b `hseq:"bee"`
	c M9c
	D M9d
	E M9e
	F M9f `hseq:"eff,omitempty"`
	g M9g
	H M9h
	I M9i
}

func fillM9(p *M9, k int) {
	*p = M9{A: k%2 == 1, B: M9b(k + 1), c: M9c{byte(k), 2, 3}, D: M9d(k) << 20, E: []*int{nil, &IntA, &IntB}[k], F: M9f([]string{"", "f", "a longer one"}[k]), g: [][]byte{nil, {1}, {2, 3}}[k], H: []any{nil, 1, "s"}[k], I: M9i(k) + 0.5}
}

func init() {
	Register(Shape{Name: "X-m9", Family: "nine", Source: "type M9 struct { A M9a(bool); B M9b(int16) `hseq:\"bee\"`; c M9c([3]byte); D M9d(int32); E M9e(*int); F M9f(string) `hseq:\"eff,omitempty\"`; g M9g([]byte); H M9h(any); I M9i(float64) }", Run: func(c *Ctx) {
		va, vb, vc := []M9a{false, true, false}, []M9b{1, -2, 30000}, []M9c{{1, 2, 3}, {}, {255, 254, 253}}
		vd, ve, vf := []M9d{1, -2, 1 << 30}, []M9e{nil, &IntA, &IntB}, []M9f{"", "a", "a longer string value"}
		vg, vh, vi := []M9g{nil, {1}, {1, 2, 3}}, []M9h{nil, 1, "s"}, []M9i{1.5, -2, 3e300}
		sa, sb, sc := func(p *M9) *M9a { return &p.A }, func(p *M9) *M9b { return &p.B }, func(p *M9) *M9c { return &p.c }
		sd, se, sf := func(p *M9) *M9d { return &p.D }, func(p *M9) *M9e { return &p.E }, func(p *M9) *M9f { return &p.F }
		sg, sh, si := func(p *M9) *M9g { return &p.g }, func(p *M9) *M9h { return &p.H }, func(p *M9) *M9i { return &p.I }
		if c.Is("C02") {
			m9TooFew(c)
		}
		if c.Is("C01") {
			Derive(c, "ForProduct9[M9, ...]() by type", func() {
				a, b, cc, d, e, f, g, h, i := optics.ForProduct9[M9, M9a, M9b, M9c, M9d, M9e, M9f, M9g, M9h, M9i]()
				Lens(c, "#0 of ForProduct9 by type", a, sa, va, fillM9)
				Lens(c, "#1 of ForProduct9 by type", b, sb, vb, fillM9)
				Lens(c, "#2 of ForProduct9 by type", cc, sc, vc, fillM9)
				Lens(c, "#3 of ForProduct9 by type", d, sd, vd, fillM9)
				Lens(c, "#4 of ForProduct9 by type", e, se, ve, fillM9)
				Lens(c, "#5 of ForProduct9 by type", f, sf, vf, fillM9)
				Lens(c, "#6 of ForProduct9 by type", g, sg, vg, fillM9)
				Lens(c, "#7 of ForProduct9 by type", h, sh, vh, fillM9)
				Lens(c, "#8 of ForProduct9 by type", i, si, vi, fillM9)
			})
			Derive(c, "ForProduct9[M9, reversed...](names) by name", func() {
				i, h, g, f, e, d, cc, b, a := optics.ForProduct9[M9, M9i, M9h, M9g, M9f, M9e, M9d, M9c, M9b, M9a]("I", "H", "g", "eff", "E", "D", "c", "bee", "A")
				Lens(c, "#8 of reversed ForProduct9 by name", a, sa, va, fillM9)
				Lens(c, "#7 of reversed ForProduct9 by name", b, sb, vb, fillM9)
				Lens(c, "#6 of reversed ForProduct9 by name", cc, sc, vc, fillM9)
				Lens(c, "#5 of reversed ForProduct9 by name", d, sd, vd, fillM9)
				Lens(c, "#4 of reversed ForProduct9 by name", e, se, ve, fillM9)
				Lens(c, "#3 of reversed ForProduct9 by name", f, sf, vf, fillM9)
				Lens(c, "#2 of reversed ForProduct9 by name", g, sg, vg, fillM9)
				Lens(c, "#1 of reversed ForProduct9 by name", h, sh, vh, fillM9)
				Lens(c, "#0 of reversed ForProduct9 by name", i, si, vi, fillM9)
			})
			Derive(c, "ForSpectrum9[M9, rotated...]() by type", func() {
				d, e, f, g, h, i, a, b, cc := optics.ForSpectrum9[M9, M9d, M9e, M9f, M9g, M9h, M9i, M9a, M9b, M9c]()
				Reflector(c, "#6 of rotated ForSpectrum9", a, sa, va, fillM9)
				Reflector(c, "#7 of rotated ForSpectrum9", b, sb, vb, fillM9)
				Reflector(c, "#8 of rotated ForSpectrum9", cc, sc, vc, fillM9)
				Reflector(c, "#0 of rotated ForSpectrum9", d, sd, vd, fillM9)
				Reflector(c, "#1 of rotated ForSpectrum9", e, se, ve, fillM9)
				Reflector(c, "#2 of rotated ForSpectrum9", f, sf, vf, fillM9)
				Reflector(c, "#3 of rotated ForSpectrum9", g, sg, vg, fillM9)
				Reflector(c, "#4 of rotated ForSpectrum9", h, sh, vh, fillM9)
				Reflector(c, "#5 of rotated ForSpectrum9", i, si, vi, fillM9)
			})
			// every arity 2..9 of both families, by type and by name (generated: m9_gen.go)
			m9AllArities(c)
			// the arities in between, by type, on interleaved selections
			Derive(c, "ForProduct4..8 on M9", func() {
				a4, c4, e4, g4 := optics.ForProduct4[M9, M9a, M9c, M9e, M9g]()
				Lens(c, "#0 of ForProduct4[a,c,e,g]", a4, sa, va, fillM9)
				Lens(c, "#1 of ForProduct4[a,c,e,g]", c4, sc, vc, fillM9)
				Lens(c, "#2 of ForProduct4[a,c,e,g]", e4, se, ve, fillM9)
				Lens(c, "#3 of ForProduct4[a,c,e,g]", g4, sg, vg, fillM9)
				i5, b5, h5, d5, f5 := optics.ForProduct5[M9, M9i, M9b, M9h, M9d, M9f]("I", "bee", "H", "D", "eff")
				Lens(c, "#0 of ForProduct5[i,b,h,d,f] by name", i5, si, vi, fillM9)
				Lens(c, "#1 of ForProduct5[i,b,h,d,f] by name", b5, sb, vb, fillM9)
				Lens(c, "#2 of ForProduct5[i,b,h,d,f] by name", h5, sh, vh, fillM9)
				Lens(c, "#3 of ForProduct5[i,b,h,d,f] by name", d5, sd, vd, fillM9)
				Lens(c, "#4 of ForProduct5[i,b,h,d,f] by name", f5, sf, vf, fillM9)
				b6, a6, d6, c6, f6, e6 := optics.ForProduct6[M9, M9b, M9a, M9d, M9c, M9f, M9e]()
				Lens(c, "#0 of ForProduct6[b,a,d,c,f,e]", b6, sb, vb, fillM9)
				Lens(c, "#1 of ForProduct6[b,a,d,c,f,e]", a6, sa, va, fillM9)
				Lens(c, "#2 of ForProduct6[b,a,d,c,f,e]", d6, sd, vd, fillM9)
				Lens(c, "#3 of ForProduct6[b,a,d,c,f,e]", c6, sc, vc, fillM9)
				Lens(c, "#4 of ForProduct6[b,a,d,c,f,e]", f6, sf, vf, fillM9)
				Lens(c, "#5 of ForProduct6[b,a,d,c,f,e]", e6, se, ve, fillM9)
				g7, h7, i7, a7, b7, c7, d7 := optics.ForSpectrum7[M9, M9g, M9h, M9i, M9a, M9b, M9c, M9d]("g", "H", "I", "A", "bee", "c", "D")
				Reflector(c, "#0 of ForSpectrum7 by name", g7, sg, vg, fillM9)
				Reflector(c, "#1 of ForSpectrum7 by name", h7, sh, vh, fillM9)
				Reflector(c, "#2 of ForSpectrum7 by name", i7, si, vi, fillM9)
				Reflector(c, "#3 of ForSpectrum7 by name", a7, sa, va, fillM9)
				Reflector(c, "#4 of ForSpectrum7 by name", b7, sb, vb, fillM9)
				Reflector(c, "#5 of ForSpectrum7 by name", c7, sc, vc, fillM9)
				Reflector(c, "#6 of ForSpectrum7 by name", d7, sd, vd, fillM9)
				h8, g8, f8, e8, d8, c8, b8, a8 := optics.ForProduct8[M9, M9h, M9g, M9f, M9e, M9d, M9c, M9b, M9a]()
				Lens(c, "#0 of ForProduct8 reversed", h8, sh, vh, fillM9)
				Lens(c, "#1 of ForProduct8 reversed", g8, sg, vg, fillM9)
				Lens(c, "#2 of ForProduct8 reversed", f8, sf, vf, fillM9)
				Lens(c, "#3 of ForProduct8 reversed", e8, se, ve, fillM9)
				Lens(c, "#4 of ForProduct8 reversed", d8, sd, vd, fillM9)
				Lens(c, "#5 of ForProduct8 reversed", c8, sc, vc, fillM9)
				Lens(c, "#6 of ForProduct8 reversed", b8, sb, vb, fillM9)
				Lens(c, "#7 of ForProduct8 reversed", a8, sa, va, fillM9)
			})
		}
		if c.Is("C02") {
			MustPanic(c, "too-few-names", "ForProduct9[M9,...] with 8 names", func() {
				optics.ForProduct9[M9, M9a, M9b, M9c, M9d, M9e, M9f, M9g, M9h, M9i]("A", "bee", "c", "D", "E", "eff", "g", "H")
			})
			MustPanic(c, "name-type-mismatch", "ForProduct9[M9,...] with two names swapped (types no longer match positions)", func() {
				optics.ForProduct9[M9, M9a, M9b, M9c, M9d, M9e, M9f, M9g, M9h, M9i]("A", "bee", "c", "D", "E", "eff", "g", "I", "H")
			})
		}
		if c.Is("C04") {
			Derive(c, "ForShape9[M9,...]() by type", func() {
				l := optics.ForShape9[M9, M9a, M9b, M9c, M9d, M9e, M9f, M9g, M9h, M9i]()
				for k := 0; k < 3; k++ {
					c.R.Evaluations++
					subj := newBox(fillM9, k)
					twin := twinOf(subj)
					j := (k + 1) % 3
					ret := l.Put(&subj.v, va[j], vb[j], vc[j], vd[j], ve[j], vf[j], vg[j], vh[j], vi[j])
					twin.v.A, twin.v.B, twin.v.c, twin.v.D, twin.v.E, twin.v.F, twin.v.g, twin.v.H, twin.v.I = va[j], vb[j], vc[j], vd[j], ve[j], vf[j], vg[j], vh[j], vi[j]
					if ret != &subj.v {
						c.Viol("shape-return", "ForShape9[M9].Put did not return the struct pointer")
					}
					if d := diff(subj, twin); d != "" {
						c.Viol("shape-put", "ForShape9[M9].Put differs from nine plain assignments: %s", d)
					}
					a, b, cc, d, e, f, g, h, i := l.Get(&subj.v)
					if !reflect.DeepEqual([]any{a, b, cc, d, e, f, g, h, i}, []any{va[j], vb[j], vc[j], vd[j], ve[j], vf[j], vg[j], vh[j], vi[j]}) {
						c.Viol("shape-get", "ForShape9[M9].Get = %v", []any{a, b, cc, d, e, f, g, h, i})
					}
				}
			})
		}
	}})
}
