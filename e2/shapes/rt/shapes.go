// Package shapes is the generic run-time half of the struct-shape checks
// (C01-C04): generated code (one Go package per shard, written by
// e2/shapes/gen from the generator's own description of every struct shape)
// declares the struct types, derives the optics and hands them to the checkers
// in this package, whose ground truth is the compiler's own field selector.
package shapes

import (
	"fmt"
	"math"
	"reflect"
	"runtime/debug"
	"strings"
	"unsafe"

	"github.com/fogfish/golem/hseq"
	"github.com/fogfish/golem/optics"
	"verif/drv"
)

// Shape is one generated struct shape with everything to check on it.
type Shape struct {
	Name   string
	Family string // flat | embed | embedptr | dup | nine | join | ...
	Source string // Go source of the type declarations
	Run    func(c *Ctx)
}

// All is filled by the init functions of the generated packages.
var All []Shape

func Register(s Shape) { All = append(All, s) }

// Ctx carries the property being checked and collects results.
type Ctx struct {
	Prop  string
	Tier  string
	Shape *Shape
	R     *drv.Result
}

func (c *Ctx) Is(prop string) bool { return c.Prop == prop }

func (c *Ctx) Viol(sig, f string, a ...any) {
	if len(c.R.Viols) >= 3 {
		return
	}
	msg := fmt.Sprintf(f, a...)
	c.R.Viols = append(c.R.Viols, drv.Viol{
		Sig:    c.Prop + "/" + c.Shape.Family + "/" + sig,
		Msg:    fmt.Sprintf("shape %s: %s\n%s", c.Shape.Name, msg, c.Shape.Source),
		Replay: map[string]any{"shape": c.Shape.Name, "source": c.Shape.Source, "what": msg},
	})
}

func init() {
	// the boxes below are filled with sentinel bytes before their fields are set; no collection may look at them meanwhile
	debug.SetGCPercent(-1)
}

// Foreign types: no generated struct has a field of these types.
type ForeignA uint32
type ForeignB [5]byte
type ForeignC struct{ X, Y int64 }

// NegZero: putting -0 over +0 (or back) must change the sign bit although the two compare equal.
var NegZero, NegZero32 = math.Copysign(0, -1), float32(math.Copysign(0, -1))

// IntA, IntB are targets for pointer-typed field values.
var IntA, IntB = 11, 22

const sentinel = 0xA5

// box surrounds the struct with guard bytes.
type box[S any] struct {
	pre  [256]byte
	v    S
	post [256]byte
}

var sink []any // keeps boxes on the heap

func raw[T any](p *T) []byte {
	return unsafe.Slice((*byte)(unsafe.Pointer(p)), unsafe.Sizeof(*p))
}

// newBox returns a box whose every byte (guards and padding included) is the sentinel and whose fields are filled with variant k.
func newBox[S any](fill func(*S, int), k int) *box[S] {
	b := new(box[S])
	sink = append(sink[:0], b)
	bs := raw(b)
	for i := range bs {
		bs[i] = sentinel
	}
	fill(&b.v, k)
	return b
}

// dataMask marks the bytes of a value of type t that carry data (false = padding).
func dataMask(t reflect.Type) []bool {
	m := make([]bool, t.Size())
	var walk func(t reflect.Type, base uintptr)
	walk = func(t reflect.Type, base uintptr) {
		switch t.Kind() {
		case reflect.Struct:
			for i := 0; i < t.NumField(); i++ {
				walk(t.Field(i).Type, base+t.Field(i).Offset)
			}
		case reflect.Array:
			for i := 0; i < t.Len(); i++ {
				walk(t.Elem(), base+uintptr(i)*t.Elem().Size())
			}
		default:
			for i := uintptr(0); i < t.Size(); i++ {
				m[base+i] = true
			}
		}
	}
	walk(t, 0)
	return m
}

// diff compares two boxes byte by byte: the guards around the struct completely, inside the struct every
// byte that carries data. Padding bytes (between fields, inside nested structs) are not compared: an optic
// that copies a whole sub-struct (Join does) may legitimately rewrite them, and the statement speaks of fields
// and of the memory around the struct.
func diff[S any](a, b *box[S]) string {
	x, y := raw(a), raw(b)
	base := unsafe.Offsetof(a.v)
	size := unsafe.Sizeof(a.v)
	mask := dataMask(reflect.TypeOf(new(S)).Elem())
	for i := range x {
		if x[i] == y[i] {
			continue
		}
		off := uintptr(i)
		if off >= base && off < base+size && !mask[off-base] {
			continue
		}
		where := "inside the struct"
		switch {
		case off < base:
			where = "in the memory BEFORE the struct"
		case off >= base+size:
			where = "in the memory AFTER the struct"
		}
		return fmt.Sprintf("byte at struct offset %d differs %s: the optic left 0x%02x, the plain assignment gives 0x%02x", int(off)-int(base), where, x[i], y[i])
	}
	return ""
}

// twinOf returns a byte-for-byte copy of the box (same pointer values, same padding).
func twinOf[S any](b *box[S]) *box[S] {
	t := new(box[S])
	sink = append(sink, t)
	copy(raw(t), raw(b))
	return t
}

func catch(f func()) (p any) {
	defer func() { p = recover() }()
	f()
	return nil
}

// Derive runs a derivation that must succeed.
func Derive(c *Ctx, label string, f func()) {
	if p := catch(f); p != nil {
		c.Viol("derive-panic", "%s panicked: %v", label, short(p))
	}
}

func short(p any) string {
	s := strings.TrimSpace(fmt.Sprint(p))
	if len(s) > 200 {
		s = s[:200] + "..."
	}
	return s
}

// MustPanic runs a derivation / call that must be refused loudly.
func MustPanic(c *Ctx, sig, label string, f func()) {
	c.R.Evaluations++
	if p := catch(f); p == nil {
		c.Viol(sig, "%s was accepted silently, it must panic", label)
	}
}

// eq compares two focus values: DeepEqual, except for function values (DeepEqual calls two non-nil functions
// different even when they are the same function), which are compared by their bits.
func eq[A any](a, b A) bool {
	if reflect.TypeOf(&a).Elem().Kind() == reflect.Func {
		return string(raw(&a)) == string(raw(&b))
	}
	if v := reflect.ValueOf(&a).Elem(); v.Kind() == reflect.Slice && v.Cap() != reflect.ValueOf(&b).Elem().Cap() {
		return false // the value of a slice field is its header: a read that clips the spare capacity is not the field's value
	}
	return reflect.DeepEqual(a, b)
}

// Lens checks a lens against the selector sel on every ordered pair of values.
func Lens[S, A any](c *Ctx, label string, lens optics.Lens[S, A], sel func(*S) *A, vals []A, fill func(*S, int)) {
	for i := range vals {
		for j := range vals {
			c.R.Evaluations++
			subj := newBox(fill, i)
			twin := twinOf(subj)
			if g := lens.Get(&subj.v); !eq(g, *sel(&subj.v)) {
				c.Viol("get", "%s: Get = %v, the field holds %v", label, g, *sel(&subj.v))
				return
			}
			ret := lens.Put(&subj.v, vals[j])
			*sel(&twin.v) = vals[j]
			if ret != &subj.v {
				c.Viol("put-return", "%s: Put returned %p, want the struct pointer %p", label, ret, &subj.v)
				return
			}
			if d := diff(subj, twin); d != "" {
				c.Viol("put-bytes", "%s: Put(%v) over %v: %s", label, vals[j], vals[i], d)
				return
			}
			if g := lens.Get(&subj.v); !eq(g, vals[j]) {
				c.Viol("putget", "%s: Get after Put(%v) = %v", label, vals[j], g)
				return
			}
			// GetPut: putting back what is there changes nothing; PutPut: the second put wins
			lens.Put(&subj.v, lens.Get(&subj.v))
			if d := diff(subj, twin); d != "" {
				c.Viol("getput", "%s: Put(Get(s)) changed the struct: %s", label, d)
				return
			}
			lens.Put(lens.Put(&subj.v, vals[i]), vals[j])
			if d := diff(subj, twin); d != "" {
				c.Viol("putput", "%s: Put(%v) then Put(%v) differs from Put(%v): %s", label, vals[i], vals[j], vals[j], d)
				return
			}
		}
	}
}

// Reflector checks a reflector against the selector, and that wrong dynamic argument types are refused without any write.
func Reflector[S, A any](c *Ctx, label string, r optics.Reflector[A], sel func(*S) *A, vals []A, fill func(*S, int)) {
	for i := range vals {
		for j := range vals {
			c.R.Evaluations++
			subj := newBox(fill, i)
			twin := twinOf(subj)
			if g := r.Gett(&subj.v); !eq(g, *sel(&subj.v)) {
				c.Viol("gett", "%s: Gett = %v, the field holds %v", label, g, *sel(&subj.v))
				return
			}
			ret := r.Putt(&subj.v, vals[j])
			*sel(&twin.v) = vals[j]
			if p, ok := ret.(*S); !ok || p != &subj.v {
				c.Viol("putt-return", "%s: Putt returned %v, want the struct pointer", label, ret)
				return
			}
			if d := diff(subj, twin); d != "" {
				c.Viol("putt-bytes", "%s: Putt(%v) over %v: %s", label, vals[j], vals[i], d)
				return
			}
		}
	}
	if !c.Is("C02") {
		return
	}
	// anything but *S must panic and modify nothing
	type other struct{ X [64]byte }
	subj := newBox(fill, 0)
	twin := twinOf(subj)
	ps := &subj.v
	o := &other{}
	one := []S{subj.v}
	args := map[string]any{"S (by value)": subj.v, "*Other": o, "**S": &ps, "nil": nil, "(*S)(nil) boxed as *Other(nil)": (*other)(nil), "uintptr": uintptr(unsafe.Pointer(ps)), "unsafe.Pointer": unsafe.Pointer(ps),
		"[]S": one, "*[]S": &one, "[1]S": [1]S{subj.v}, "*[1]S": &[1]S{subj.v}, "map[string]S": map[string]S{"k": subj.v}, "chan S": make(chan S, 1), "func() *S": func() *S { return ps }, "[]*S": []*S{ps}}
	for name, arg := range args {
		for _, which := range []string{"Gett", "Putt"} {
			c.R.Evaluations++
			p := catch(func() {
				if which == "Gett" {
					r.Gett(arg)
				} else {
					r.Putt(arg, vals[len(vals)-1])
				}
			})
			if p == nil {
				c.Viol("reflector-arg", "%s: %s(%s) was accepted, it must panic", label, which, name)
				return
			}
			if d := diff(subj, twin); d != "" {
				c.Viol("reflector-arg-write", "%s: %s(%s) panicked but modified memory: %s", label, which, name, d)
				return
			}
			if *o != (other{}) {
				c.Viol("reflector-arg-write", "%s: %s(%s) wrote into the foreign struct", label, which, name)
				return
			}
		}
	}
}

// E is one expected entry of the unfolding of S.
type E[S any] struct {
	Name      string
	Key       string
	Type      reflect.Type
	Anonymous bool
	BehindPtr bool
	Addr      func(*S) unsafe.Pointer // nil when BehindPtr
}

// Listing checks hseq.New[S] and the lookups by name against the expected unfolding.
func Listing[S any](c *Ctx, want []E[S]) {
	// the sequence New returns belongs to the caller: it is scribbled on (reversed in place, one entry overwritten,
	// appended into) and the type is unfolded again - the second unfolding must be as good as the first
	n0 := len(c.R.Viols)
	first := listing(c, want)
	if len(c.R.Viols) > n0 || len(first) == 0 {
		return
	}
	for i, j := 0, len(first)-1; i < j; i, j = i+1, j-1 {
		first[i], first[j] = first[j], first[i]
	}
	first[0].ID, first[0].Name, first[0].RootOffs = 99, "scribbled", 4096
	_ = append(first[:1], first[0])
	if again := listing(c, want); len(c.R.Viols) > n0 && len(again) > 0 {
		c.R.Viols[len(c.R.Viols)-1].Msg += "\n(this was the second unfolding of the type, after the caller had modified the sequence returned by the first one)"
	}
}

func listing[S any](c *Ctx, want []E[S]) hseq.Seq[S] {
	var seq hseq.Seq[S]
	if p := catch(func() { seq = hseq.New[S]() }); p != nil {
		c.Viol("new-panic", "hseq.New panicked: %v", short(p))
		return nil
	}
	c.R.Evaluations++
	desc := func(s hseq.Seq[S]) string {
		var b []string
		for _, t := range s {
			b = append(b, fmt.Sprintf("%d:%s/%s:%v@%d+%d", t.ID, t.Name, t.FieldKey(), t.Type, t.RootOffs, t.Offset))
		}
		return strings.Join(b, " ")
	}
	if len(seq) != len(want) {
		c.Viol("listing-length", "unfolding has %d entries, want %d (%s)", len(seq), len(want), desc(seq))
		return seq
	}
	var zs S
	for i, w := range want {
		t := seq[i]
		if t.ID != i {
			c.Viol("listing-id", "entry %d has ID %d (%s)", i, t.ID, desc(seq))
			return seq
		}
		if t.Name != w.Name || t.FieldKey() != w.Key || t.Type != w.Type || t.Anonymous != w.Anonymous {
			c.Viol("listing-entry", "entry %d is %s key %s type %v anonymous=%v, want %s key %s type %v anonymous=%v (%s)", i, t.Name, t.FieldKey(), t.Type, t.Anonymous, w.Name, w.Key, w.Type, w.Anonymous, desc(seq))
			return seq
		}
		pure := w.Type
		if pure.Kind() == reflect.Ptr {
			pure = pure.Elem()
		}
		if t.PureType != pure {
			c.Viol("listing-puretype", "entry %d (%s) has PureType %v, want %v", i, t.Name, t.PureType, pure)
			return seq
		}
		if !w.BehindPtr {
			real := uintptr(w.Addr(&zs)) - uintptr(unsafe.Pointer(&zs))
			if t.RootOffs+t.Offset != real {
				c.Viol("listing-offset", "entry %d (%s): RootOffs+Offset = %d+%d, the field's real offset is %d", i, t.Name, t.RootOffs, t.Offset, real)
				return seq
			}
		}
	}
	// lookups by name: first match in listing order
	first := map[string]int{}
	for i := len(want) - 1; i >= 0; i-- {
		first[want[i].Key] = i
	}
	keys := []string{}
	for k := range first {
		keys = append(keys, k)
	}
	for _, k := range keys {
		c.R.Evaluations++
		var got hseq.Type[S]
		if p := catch(func() { got = hseq.ForName(seq, k) }); p != nil || got.ID != first[k] {
			c.Viol("forname", "ForName(%q) = entry %d (panic %v), want the first match %d", k, got.ID, p, first[k])
			return seq
		}
		if g, ok := hseq.ForNameMaybe(seq, k); !ok || g.ID != first[k] {
			c.Viol("fornamemaybe", "ForNameMaybe(%q) = entry %d, %v; want %d, true", k, g.ID, ok, first[k])
			return seq
		}
	}
	absent := []string{"", "nope", "Zz9", strings.ToLower(want[0].Key) + "_", want[0].Key + ",opt"}
	for _, w := range want {
		if w.Key != w.Name {
			// the tag, when present, IS the name: the Go identifier of a tagged field names nothing (unless another entry has it as its key)
			absent = append(absent, w.Name)
		}
	}
	for _, k := range absent {
		if _, dup := first[k]; dup {
			continue
		}
		c.R.Evaluations++
		p := catch(func() { hseq.ForName(seq, k) })
		if p == nil {
			c.Viol("forname-absent", "ForName(%q) returned although no field has that name", k)
			return seq
		}
		if _, isErr := p.(error); !isErr {
			c.Viol("forname-absent", "ForName(%q) panicked with %T, want an error value", k, p)
			return seq
		}
		if g, ok := hseq.ForNameMaybe(seq, k); ok {
			c.Viol("fornamemaybe-absent", "ForNameMaybe(%q) = entry %d, true; want absence", k, g.ID)
			return seq
		}
	}
	// selection by names keeps the requested order and the original IDs: all permutations of up to 3 keys
	var perm func(p []string)
	perm = func(p []string) {
		if len(p) > 0 {
			c.R.Evaluations++
			var sel hseq.Seq[S]
			if pn := catch(func() { sel = hseq.New[S](p...) }); pn != nil {
				c.Viol("new-names", "hseq.New(%v) panicked: %v", p, short(pn))
				return
			}
			if len(sel) != len(p) {
				c.Viol("new-names", "hseq.New(%v) has %d entries", p, len(sel))
				return
			}
			for i, k := range p {
				if sel[i].ID != first[k] {
					c.Viol("new-names", "hseq.New(%v): position %d is entry %d, want %d (the first field named %q)", p, i, sel[i].ID, first[k], k)
					return
				}
			}
		}
		if len(p) == 3 || len(c.R.Viols) > 0 {
			return
		}
		for _, k := range keys {
			used := false
			for _, q := range p {
				used = used || q == k
			}
			if !used {
				perm(append(append([]string{}, p...), k))
			}
		}
	}
	if len(keys) <= 6 {
		perm(nil)
	}
	// FMap / FMapN hand the i-th entry to the i-th function
	ids := hseq.FMap(seq, func(t hseq.Type[S]) int { return t.ID })
	for i, id := range ids {
		if id != i {
			c.Viol("fmap", "FMap: function result %d came from entry %d", i, id)
			return seq
		}
	}
	for n := 1; n <= 9 && n <= len(seq); n++ {
		// a rotated selection so that position and ID differ
		sub := append(append(hseq.Seq[S]{}, seq[len(seq)-n:]...), seq[:0]...)
		got := fmapN(n, sub)
		for i := range got {
			if got[i] != sub[i].ID*10+i {
				c.Viol("fmapn", "FMap%d: function %d received entry %d, want entry %d", n, got[i]%10, got[i]/10, sub[i].ID)
				return seq
			}
		}
		if n < len(seq) && n <= 4 {
			// a sequence with more entries than functions: the i-th function still gets the i-th entry
			long := append(append(hseq.Seq[S]{}, sub...), seq[0], seq[len(seq)-1])
			var gl []int
			if p := catch(func() { gl = fmapN(n, long) }); p != nil {
				c.Viol("fmapn-longer", "FMap%d over a sequence of %d entries panicked: %v", n, len(long), short(p))
				return seq
			}
			for i := range gl {
				if gl[i] != long[i].ID*10+i {
					c.Viol("fmapn-longer", "FMap%d over a sequence of %d entries: function %d received entry %d, want entry %d", n, len(long), gl[i]%10, gl[i]/10, long[i].ID)
					return seq
				}
			}
		}
	}
	return seq
}

// fmapN calls hseq.FMapN with functions that tag the entry they receive with their own position.
func fmapN[S any](n int, ts hseq.Seq[S]) []int {
	f := func(i int) func(hseq.Type[S]) int { return func(t hseq.Type[S]) int { return t.ID*10 + i } }
	switch n {
	case 1:
		return []int{hseq.FMap1(ts, f(0))}
	case 2:
		a, b := hseq.FMap2(ts, f(0), f(1))
		return []int{a, b}
	case 3:
		a, b, c := hseq.FMap3(ts, f(0), f(1), f(2))
		return []int{a, b, c}
	case 4:
		a, b, c, d := hseq.FMap4(ts, f(0), f(1), f(2), f(3))
		return []int{a, b, c, d}
	case 5:
		a, b, c, d, e := hseq.FMap5(ts, f(0), f(1), f(2), f(3), f(4))
		return []int{a, b, c, d, e}
	case 6:
		a, b, c, d, e, g := hseq.FMap6(ts, f(0), f(1), f(2), f(3), f(4), f(5))
		return []int{a, b, c, d, e, g}
	case 7:
		a, b, c, d, e, g, h := hseq.FMap7(ts, f(0), f(1), f(2), f(3), f(4), f(5), f(6))
		return []int{a, b, c, d, e, g, h}
	case 8:
		a, b, c, d, e, g, h, i := hseq.FMap8(ts, f(0), f(1), f(2), f(3), f(4), f(5), f(6), f(7))
		return []int{a, b, c, d, e, g, h, i}
	case 9:
		a, b, c, d, e, g, h, i, j := hseq.FMap9(ts, f(0), f(1), f(2), f(3), f(4), f(5), f(6), f(7), f(8))
		return []int{a, b, c, d, e, g, h, i, j}
	}
	return nil
}

// TypeIs checks a lookup by type (ForType / NewN): the thunk must return the entries with the given IDs.
func TypeIs[S any](c *Ctx, label string, f func() hseq.Seq[S], want []int) {
	c.R.Evaluations++
	var got hseq.Seq[S]
	if p := catch(func() { got = f() }); p != nil {
		c.Viol("fortype", "%s panicked: %v", label, short(p))
		return
	}
	if len(got) != len(want) {
		c.Viol("fortype", "%s returned %d entries, want %d", label, len(got), len(want))
		return
	}
	for i := range want {
		if got[i].ID != want[i] {
			c.Viol("fortype", "%s: position %d is entry %d (%s), want entry %d", label, i, got[i].ID, got[i].Name, want[i])
			return
		}
	}
}

// MayDerive is for requests whose outcome the statement leaves open (a focus behind an embedded pointer): the
// derivation may panic; if it returns a lens, that lens must read and write the pointee's field and nothing else.
func MayDerive[S, A any](c *Ctx, label string, derive func() optics.Lens[S, A], sel func(*S) *A, vals []A, fill func(*S, int)) {
	c.R.Evaluations++
	var lens optics.Lens[S, A]
	if p := catch(func() { lens = derive() }); p != nil {
		return
	}
	if inPlaceLens(lens, vals, fill) {
		// the statement asks for "a field whose declared type is identical to the requested type" with reads and writes inside
		// that field: when the container itself holds a field of that type (same name, same offset as pointer offset + inner
		// offset - it happens on 386 for shape Q2) an optic on that field is a lawful answer too
		return
	}
	for i := range vals {
		for j := range vals {
			subj, twin := newBox(fill, i), newBox(fill, i)
			sink = append(sink, twin)
			before := append([]byte{}, raw(subj)...)
			if p := catch(func() {
				if g := lens.Get(&subj.v); !reflect.DeepEqual(g, *sel(&subj.v)) {
					c.Viol("ptr-get", "%s derived a lens whose Get = %v, the field behind the pointer holds %v", label, g, *sel(&subj.v))
				}
				lens.Put(&subj.v, vals[j])
			}); p != nil {
				c.Viol("ptr-use-panic", "%s derived a lens that panics when used: %v", label, short(p))
				return
			}
			if len(c.R.Viols) > 0 {
				return
			}
			*sel(&twin.v) = vals[j]
			if string(before) != string(raw(subj)) {
				c.Viol("ptr-put-outer", "%s derived a lens whose Put wrote into the outer struct or its surroundings (the focus lives behind an embedded pointer)", label)
				return
			}
			if !reflect.DeepEqual(subj.v, twin.v) {
				c.Viol("ptr-put", "%s derived a lens whose Put(%v) does not behave like the assignment through the pointer", label, vals[j])
				return
			}
		}
	}
}

// inPlaceLens reports whether lens behaves exactly like a lens on one of the fields of type A that S holds in its own
// memory (directly or through value-embedded structs): Get reads that field, Put changes that field and no other byte.
func inPlaceLens[S, A any](lens optics.Lens[S, A], vals []A, fill func(*S, int)) bool {
	at := reflect.TypeOf(new(A)).Elem()
	var offs []uintptr
	var walk func(t reflect.Type, base uintptr)
	walk = func(t reflect.Type, base uintptr) {
		for i := 0; i < t.NumField(); i++ {
			f := t.Field(i)
			if f.Type == at {
				offs = append(offs, base+f.Offset)
			}
			if f.Anonymous && f.Type.Kind() == reflect.Struct {
				walk(f.Type, base+f.Offset)
			}
		}
	}
	walk(reflect.TypeOf(new(S)).Elem(), 0)
	for _, o := range offs {
		ok := true
		for i := range vals {
			for j := range vals {
				subj := newBox(fill, i)
				twin := twinOf(subj)
				fs := (*A)(unsafe.Add(unsafe.Pointer(&subj.v), o))
				ft := (*A)(unsafe.Add(unsafe.Pointer(&twin.v), o))
				if p := catch(func() {
					if !eq(lens.Get(&subj.v), *fs) {
						ok = false
					}
					lens.Put(&subj.v, vals[j])
				}); p != nil {
					ok = false
				}
				*ft = vals[j]
				if diff(subj, twin) != "" {
					ok = false
				}
			}
		}
		if ok {
			return true
		}
	}
	return false
}

// ReflectorRejects: the reflector must refuse arg (anything but a pointer to its own container type) by
// panicking, and must not modify the memory arg points to.
func ReflectorRejects[A any](c *Ctx, label string, r optics.Reflector[A], arg any, mem func() []byte, val A) {
	for _, which := range []string{"Gett", "Putt"} {
		c.R.Evaluations++
		before := append([]byte{}, mem()...)
		p := catch(func() {
			if which == "Gett" {
				r.Gett(arg)
			} else {
				r.Putt(arg, val)
			}
		})
		if p == nil {
			c.Viol("reflector-arg", "%s: %s(%T) was accepted, it must panic (only a pointer to the reflector's own container type is valid)", label, which, arg)
			return
		}
		if string(before) != string(mem()) {
			c.Viol("reflector-arg-write", "%s: %s(%T) panicked but modified the argument", label, which, arg)
			return
		}
	}
}

// Raw exposes the bytes of a value to generated code.
func Raw[T any](p *T) []byte { return raw(p) }

func init() {
	// Hand-written shapes: types that print alike. Two distinct local types named T (one shadows the other)
	// have the same reflect String() and Kind(); a request for the field with the other T must be refused.
	Register(Shape{Name: "L1", Family: "localtype", Source: localSrc, Run: func(c *Ctx) {
		type T struct{ A int64 }
		type S struct {
			Pre   int8
			F     T
			Guard [3]byte
		}
		type T32 int32
		type S2 struct {
			Pre   int8
			T32   T32
			Guard [3]byte
		}
		fill := func(p *S, k int) { p.Pre, p.F, p.Guard = int8(k), T{int64(k + 1)}, [3]byte{1, 2, 3} }
		if c.Is("C01") {
			Derive(c, "ForProduct1[S, T](\"F\") with a function-local T", func() {
				Lens(c, "lens on a field of a function-local type", optics.ForProduct1[S, T]("F"), func(p *S) *T { return &p.F }, []T{{1}, {-2}, {1 << 40}}, fill)
			})
		}
		if c.Is("C02") {
			{
				type T struct{ A, B, C int64 } // shadows the outer T: same name, same kind, three times the size
				MustPanic(c, "name-type-mismatch", "ForProduct1[S, T](\"F\") where T is another local type with the same printed name (struct of 24 bytes, the field's T has 8)", func() { optics.ForProduct1[S, T]("F") })
				MustPanic(c, "name-type-mismatch", "ForSpectrum1[S, T](\"F\") where T is another local type with the same printed name", func() { optics.ForSpectrum1[S, T]("F") })
				MustPanic(c, "type-absent", "ForProduct1[S, T]() where T is another local type with the same printed name as a field's type", func() { optics.ForProduct1[S, T]() })
			}
			{
				type T32 int32 // same name, same kind, same size as the field's type, still a different type
				MustPanic(c, "name-type-mismatch", "ForProduct1[S2, T32](\"T32\") where T32 is another local type with the same printed name and the same size", func() { optics.ForProduct1[S2, T32]("T32") })
				MustPanic(c, "type-absent", "ForSpectrum1[S2, T32]() where T32 is another local type with the same printed name", func() { optics.ForSpectrum1[S2, T32]() })
			}
		}
		if c.Is("C03") {
			{
				type T struct{ A, B, C int64 }
				MustPanic(c, "fortype-absent", "hseq.ForType with another local type that prints like a field's type", func() { hseq.ForType[T](hseq.New[S]()) })
			}
		}
	}})
}

// ---- U1: fields of unnamed types -------------------------------------------------
// For unnamed types assignability is wider than identity (chan int is assignable to <-chan int, every type to any,
// *U1Impl to interface{ M() int }, []int32 to a named slice type and back), and Name() / PkgPath() are empty for
// all of them: a derivation or lookup that compares anything less than type identity goes wrong exactly here.

type U1Impl struct{ V int }

func (*U1Impl) M() int { return 1 }

type U1Ints []int32
type U1Pair struct {
	X int8
	Y int32
}
type U1Box[T any] struct{ V T }

type U1 struct {
	Pre int8
	C   chan int
	Ro  <-chan int
	P   *U1Impl
	I   interface{ M() int }
	E   any
	Sl  []int32
	Ar  [2]int16
	Mp  map[string]int
	Fn  func(int) int
	St  struct {
		X int8
		Y int32
	}
	B32  U1Box[int32]
	B64  U1Box[int64]
	Post int8
}

var u1c1, u1c2 = make(chan int), make(chan int, 1)
var u1p1, u1p2 = &U1Impl{1}, &U1Impl{2}
var u1m1, u1m2 = map[string]int{"a": 1}, map[string]int{}
var u1f1, u1f2 = func(x int) int { return x + 1 }, func(x int) int { return x * 2 }

func fillU1(p *U1, k int) {
	k %= 3
	p.Pre, p.Post = int8(k+1), int8(-k-1)
	p.C = []chan int{nil, u1c1, u1c2}[k]
	p.Ro = []<-chan int{u1c2, nil, u1c1}[k]
	p.P = []*U1Impl{u1p1, u1p2, nil}[k]
	p.I = []interface{ M() int }{nil, u1p1, u1p2}[k]
	p.E = []any{[]int{1}, nil, "s"}[k]
	p.Sl = [][]int32{nil, {1}, {1, 2, 3}}[k]
	p.Ar = [][2]int16{{1, 2}, {}, {-1, 30000}}[k]
	p.Mp = []map[string]int{u1m1, nil, u1m2}[k]
	p.Fn = []func(int) int{u1f1, nil, u1f2}[k]
	p.St.X, p.St.Y = int8(k), int32(k)<<20
	p.B32, p.B64 = U1Box[int32]{int32(k) + 5}, U1Box[int64]{int64(k) << 40}
}

const u1Src = `type U1 struct {
	Pre int8
	C chan int
	Ro <-chan int
	P *U1Impl
	I interface{ M() int }
	E any
	Sl []int32
	Ar [2]int16
	Mp map[string]int
	Fn func(int) int
	St struct{ X int8; Y int32 }
	B32 U1Box[int32]
	B64 U1Box[int64]
	Post int8
}
type U1Ints []int32; type U1Pair struct{ X int8; Y int32 }; type U1Box[T any] struct{ V T }; func (*U1Impl) M() int`

func u1Lens[A any](c *Ctx, name string, sel func(*U1) *A, vals []A, byType bool) {
	lbl := fmt.Sprintf("ForProduct1[U1, %v](%q)", reflect.TypeOf(new(A)).Elem(), name)
	Derive(c, lbl, func() {
		Lens(c, lbl, optics.ForProduct1[U1, A](name), sel, vals, fillU1)
		Reflector(c, "ForSpectrum1"+lbl[11:], optics.ForSpectrum1[U1, A](name), sel, vals, fillU1)
	})
	if byType {
		lbl := fmt.Sprintf("ForProduct1[U1, %v]()", reflect.TypeOf(new(A)).Elem())
		Derive(c, lbl, func() {
			Lens(c, lbl, optics.ForProduct1[U1, A](), sel, vals, fillU1)
			Reflector(c, "ForSpectrum1"+lbl[11:], optics.ForSpectrum1[U1, A](), sel, vals, fillU1)
		})
	}
}

// u1Refuse: the field called name does not have type A (although a value of its type may be assignable to A).
func u1Refuse[A any](c *Ctx, name string) {
	t := reflect.TypeOf(new(A)).Elem()
	MustPanic(c, "name-type-mismatch", fmt.Sprintf("ForProduct1[U1, %v](%q): the field %s has another type (at most assignable to it)", t, name, name), func() { optics.ForProduct1[U1, A](name) })
	MustPanic(c, "name-type-mismatch", fmt.Sprintf("ForSpectrum1[U1, %v](%q): the field %s has another type (at most assignable to it)", t, name, name), func() { optics.ForSpectrum1[U1, A](name) })
}

func u1Absent[A any](c *Ctx) {
	t := reflect.TypeOf(new(A)).Elem()
	if c.Is("C02") {
		MustPanic(c, "type-absent", fmt.Sprintf("ForProduct1[U1, %v](): no field has that type (some fields are assignable to it)", t), func() { optics.ForProduct1[U1, A]() })
		MustPanic(c, "type-absent", fmt.Sprintf("ForSpectrum1[U1, %v](): no field has that type (some fields are assignable to it)", t), func() { optics.ForSpectrum1[U1, A]() })
	}
	if c.Is("C03") {
		MustPanic(c, "fortype-absent", fmt.Sprintf("hseq.ForType[%v]: no field of U1 has that type (some fields are assignable to it)", t), func() { hseq.ForType[A](hseq.New[U1]()) })
	}
}

func u1Type[A any](c *Ctx, id int) {
	t := reflect.TypeOf(new(A)).Elem()
	TypeIs(c, fmt.Sprintf("ForType[%v] on U1", t), func() hseq.Seq[U1] { return hseq.Seq[U1]{hseq.ForType[A](hseq.New[U1]())} }, []int{id})
	TypeIs(c, fmt.Sprintf("New1[U1, %v]", t), func() hseq.Seq[U1] { return hseq.New1[U1, A]() }, []int{id})
}

func init() {
	Register(Shape{Name: "U1", Family: "unnamed", Source: u1Src, Run: func(c *Ctx) {
		type ifM = interface{ M() int }
		type anonSt = struct {
			X int8
			Y int32
		}
		if c.Is("C01") || c.Is("C02") {
			u1Lens(c, "C", func(p *U1) *chan int { return &p.C }, []chan int{nil, u1c1, u1c2}, true)
			u1Lens(c, "Ro", func(p *U1) *<-chan int { return &p.Ro }, []<-chan int{nil, u1c1, u1c2}, true)
			u1Lens(c, "P", func(p *U1) **U1Impl { return &p.P }, []*U1Impl{nil, u1p1, u1p2}, true)
			u1Lens(c, "I", func(p *U1) *ifM { return &p.I }, []ifM{nil, u1p1, u1p2}, true)
			u1Lens(c, "E", func(p *U1) *any { return &p.E }, []any{nil, []int{1}, u1p1, 0.5}, true)
			u1Lens(c, "Sl", func(p *U1) *[]int32 { return &p.Sl }, [][]int32{nil, {}, {7, 8}}, true)
			u1Lens(c, "Ar", func(p *U1) *[2]int16 { return &p.Ar }, [][2]int16{{}, {1, 2}, {-1, -2}}, true)
			u1Lens(c, "Mp", func(p *U1) *map[string]int { return &p.Mp }, []map[string]int{nil, u1m1, u1m2}, true)
			u1Lens(c, "Fn", func(p *U1) *func(int) int { return &p.Fn }, []func(int) int{nil, u1f1, u1f2}, true)
			u1Lens(c, "St", func(p *U1) *anonSt { return &p.St }, []anonSt{{}, {1, 2}, {-1, 1 << 30}}, true)
			u1Lens(c, "B32", func(p *U1) *U1Box[int32] { return &p.B32 }, []U1Box[int32]{{}, {1}, {-1}}, true)
			u1Lens(c, "B64", func(p *U1) *U1Box[int64] { return &p.B64 }, []U1Box[int64]{{}, {1}, {-1 << 40}}, true)
			u1Lens(c, "Pre", func(p *U1) *int8 { return &p.Pre }, []int8{0, 1, -1}, true)
			u1Lens(c, "Post", func(p *U1) *int8 { return &p.Post }, []int8{0, 1, -1}, false)
		}
		if c.Is("C02") {
			u1Refuse[<-chan int](c, "C")
			u1Refuse[chan<- int](c, "C")
			u1Refuse[chan int](c, "Ro")
			u1Refuse[chan int64](c, "C")
			u1Refuse[any](c, "C")
			u1Refuse[any](c, "P")
			u1Refuse[ifM](c, "P")
			u1Refuse[*U1Pair](c, "P")
			u1Refuse[*int](c, "P")
			u1Refuse[any](c, "I")
			u1Refuse[interface {
				M() int
				N()
			}](c, "I")
			u1Refuse[ifM](c, "E")
			u1Refuse[error](c, "E")
			u1Refuse[U1Ints](c, "Sl")
			u1Refuse[[]int64](c, "Sl")
			u1Refuse[[]uint32](c, "Sl")
			u1Refuse[[3]int16](c, "Ar")
			u1Refuse[[2]uint16](c, "Ar")
			u1Refuse[[4]int8](c, "Ar")
			u1Refuse[map[string]int64](c, "Mp")
			u1Refuse[map[any]int](c, "Mp")
			u1Refuse[func(int) int64](c, "Fn")
			u1Refuse[func(int)](c, "Fn")
			u1Refuse[func(...int) int](c, "Fn")
			u1Refuse[U1Pair](c, "St")
			u1Refuse[struct {
				X int8
				Y int64
			}](c, "St")
			u1Refuse[struct {
				X int8
				Z int32
			}](c, "St")
			u1Refuse[U1Box[int64]](c, "B32")
			u1Refuse[U1Box[int32]](c, "B64")
			u1Refuse[U1Box[uint32]](c, "B32")
			u1Refuse[int16](c, "Pre")
			u1Refuse[uint8](c, "Pre")
		}
		if c.Is("C02") || c.Is("C03") {
			u1Absent[chan<- int](c)
			u1Absent[error](c)
			u1Absent[U1Ints](c)
			u1Absent[U1Pair](c)
			u1Absent[*U1Pair](c)
			u1Absent[[]int64](c)
			u1Absent[[3]int16](c)
			u1Absent[U1Box[uint32]](c)
			u1Absent[interface {
				M() int
				N()
			}](c)
			u1Absent[fmt.Stringer](c)
			u1Absent[func(int)](c)
			u1Absent[map[string]any](c)
		}
		if c.Is("C03") {
			Listing(c, []E[U1]{
				{Name: "Pre", Key: "Pre", Type: reflect.TypeOf(int8(0)), Addr: func(p *U1) unsafe.Pointer { return unsafe.Pointer(&p.Pre) }},
				{Name: "C", Key: "C", Type: reflect.TypeOf((*chan int)(nil)).Elem(), Addr: func(p *U1) unsafe.Pointer { return unsafe.Pointer(&p.C) }},
				{Name: "Ro", Key: "Ro", Type: reflect.TypeOf((*<-chan int)(nil)).Elem(), Addr: func(p *U1) unsafe.Pointer { return unsafe.Pointer(&p.Ro) }},
				{Name: "P", Key: "P", Type: reflect.TypeOf((**U1Impl)(nil)).Elem(), Addr: func(p *U1) unsafe.Pointer { return unsafe.Pointer(&p.P) }},
				{Name: "I", Key: "I", Type: reflect.TypeOf((*ifM)(nil)).Elem(), Addr: func(p *U1) unsafe.Pointer { return unsafe.Pointer(&p.I) }},
				{Name: "E", Key: "E", Type: reflect.TypeOf((*any)(nil)).Elem(), Addr: func(p *U1) unsafe.Pointer { return unsafe.Pointer(&p.E) }},
				{Name: "Sl", Key: "Sl", Type: reflect.TypeOf([]int32(nil)), Addr: func(p *U1) unsafe.Pointer { return unsafe.Pointer(&p.Sl) }},
				{Name: "Ar", Key: "Ar", Type: reflect.TypeOf([2]int16{}), Addr: func(p *U1) unsafe.Pointer { return unsafe.Pointer(&p.Ar) }},
				{Name: "Mp", Key: "Mp", Type: reflect.TypeOf(map[string]int(nil)), Addr: func(p *U1) unsafe.Pointer { return unsafe.Pointer(&p.Mp) }},
				{Name: "Fn", Key: "Fn", Type: reflect.TypeOf((func(int) int)(nil)), Addr: func(p *U1) unsafe.Pointer { return unsafe.Pointer(&p.Fn) }},
				{Name: "St", Key: "St", Type: reflect.TypeOf(anonSt{}), Addr: func(p *U1) unsafe.Pointer { return unsafe.Pointer(&p.St) }},
				{Name: "B32", Key: "B32", Type: reflect.TypeOf(U1Box[int32]{}), Addr: func(p *U1) unsafe.Pointer { return unsafe.Pointer(&p.B32) }},
				{Name: "B64", Key: "B64", Type: reflect.TypeOf(U1Box[int64]{}), Addr: func(p *U1) unsafe.Pointer { return unsafe.Pointer(&p.B64) }},
				{Name: "Post", Key: "Post", Type: reflect.TypeOf(int8(0)), Addr: func(p *U1) unsafe.Pointer { return unsafe.Pointer(&p.Post) }},
			})
			u1Type[int8](c, 0)
			u1Type[chan int](c, 1)
			u1Type[<-chan int](c, 2)
			u1Type[*U1Impl](c, 3)
			u1Type[ifM](c, 4)
			u1Type[any](c, 5)
			u1Type[[]int32](c, 6)
			u1Type[[2]int16](c, 7)
			u1Type[map[string]int](c, 8)
			u1Type[func(int) int](c, 9)
			u1Type[anonSt](c, 10)
			u1Type[U1Box[int32]](c, 11)
			u1Type[U1Box[int64]](c, 12)
		}
	}})
}

const localSrc = `func() {
	type T struct{ A int64 }
	type S struct { Pre int8; F T; Guard [3]byte }
	{
		type T struct{ A, B, C int64 } // shadows the outer T
		optics.ForProduct1[S, T]("F")  // must panic: the field F has the other T
	}
}`
