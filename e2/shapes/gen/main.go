// gen writes the Go packages that declare every struct shape in the bound and
// the calls that derive and check the optics / unfoldings on them.
//
//	gen -out DIR -tier quick|thorough -shards N -rt IMPORTPATH
//
// The generator knows each shape's tree, so the expected unfolding (names,
// keys, order, which entries sit behind a pointer) comes from its own
// description, never from reflect.
package main

import (
	"flag"
	"fmt"
	"os"
	"path/filepath"
	"strings"
)

// ---- leaf classes ---------------------------------------------------------

type leafKind struct {
	under string   // underlying Go type
	vals  []string // three value literals (use %T for the named type)
}

// classes[i] = representatives of one (size, align) class; rotated by position.
var classes = [][]leafKind{
	{{"struct{}", []string{"%T{}", "%T{}", "%T{}"}}}, // (0,1)
	{{"bool", []string{"false", "true", "false"}}, {"int8", []string{"1", "-2", "77"}}, {"uint8", []string{"1", "254", "77"}}},                            // (1,1)
	{{"int16", []string{"1", "-2", "30000"}}, {"uint16", []string{"1", "65534", "30000"}}},                                                                // (2,2)
	{{"[3]byte", []string{"%T{1, 2, 3}", "%T{}", "%T{255, 254, 253}"}}},                                                                                   // (3,1)
	{{"int32", []string{"1", "-2", "1 << 30"}}, {"float32", []string{"1.5", "%T(rt.NegZero32)", "0"}}},                                                    // (4,4)
	{{"int64", []string{"1", "-2", "1 << 62"}}, {"*int", []string{"nil", "&rt.IntA", "&rt.IntB"}}, {"float64", []string{"0", "%T(rt.NegZero)", "3e300"}}}, // (8,8)
	{{"string", []string{`""`, `"a"`, `"a longer string value"`}}, {"any", []string{"nil", "[]int{1}", "(*int)(nil)"}}},                                   // (16,8)
	{{"[]byte", []string{"nil", "%T{1}", "append(make(%T, 0, 8), 1, 2, 3)"}}},                                                                             // (24,8)
}

// ---- shape model ----------------------------------------------------------

type field struct {
	name     string // Go field name; for embedded fields the type name
	tag      string // hseq tag value, "" if none
	typ      string // Go type expression as written in the struct
	leaf     *leafKind
	embedded bool
	ptr      bool     // embedded by pointer
	sub      *structT // embedded struct
}

func (f field) key() string {
	if f.tag != "" {
		return strings.Split(f.tag, ",")[0]
	}
	return f.name
}

type structT struct {
	name   string
	fields []field
}

// leafT is a leaf field with its access path from the root.
type entry struct {
	f         field
	path      string // selector from the root value, e.g. ".In1.X"
	behindPtr bool
	id        int
	depth     int
}

type shape struct {
	only   string // emit this shape only for that property
	name   string
	family string
	root   *structT
	decls  []string // type declarations (named leaf types, structs)
	extra  func(g *gen, s *shape)
}

// unfold returns the expected listing in hseq order.
func unfold(s *structT, path string, behind bool, depth int, out *[]entry) {
	for _, f := range s.fields {
		p := path + "." + f.name
		*out = append(*out, entry{f: f, path: p, behindPtr: behind, id: len(*out), depth: depth})
		if f.embedded && f.sub != nil {
			unfold(f.sub, p, behind || f.ptr, depth+1, out)
		}
	}
}

// ---- generator ------------------------------------------------------------

type gen struct {
	b     strings.Builder
	tier  string
	prop  string // only the code this property needs is generated (compile time)
	nType int
}

func (g *gen) want(p string) bool { return g.prop == "" || g.prop == p }

func (g *gen) pf(f string, a ...any) { fmt.Fprintf(&g.b, f, a...) }

// nameMode decorates a leaf field: exported, unexported, tagged, tagged with one option, tagged with two options.
func nameMode(base string, mode int) (name, tag string) {
	switch mode % 5 {
	case 0:
		return strings.ToUpper(base[:1]) + base[1:], ""
	case 1:
		return strings.ToLower(base[:1]) + base[1:], ""
	case 2:
		return strings.ToUpper(base[:1]) + base[1:], "k" + strings.ToLower(base)
	case 3:
		return strings.ToUpper(base[:1]) + base[1:], "o" + strings.ToLower(base) + ",omitempty"
	default:
		// several options: the name is what stands in front of the first comma
		return strings.ToUpper(base[:1]) + base[1:], "m" + strings.ToLower(base) + ",omitempty,string"
	}
}

// mkLeaf declares a fresh named type of the class and returns the field.
func mkLeaf(sh *shape, prefix, base string, class, rot, mode int) field {
	k := classes[class][rot%len(classes[class])]
	tn := fmt.Sprintf("%s_%s", prefix, base)
	sh.decls = append(sh.decls, fmt.Sprintf("type %s %s", tn, k.under), fmt.Sprintf("type %s_same %s // a distinct named type with the same underlying type", tn, k.under))
	name, tag := nameMode(base, mode)
	return field{name: name, tag: tag, typ: tn, leaf: &k}
}

func structDecl(s *structT) string {
	var b strings.Builder
	fmt.Fprintf(&b, "type %s struct {\n", s.name)
	for _, f := range s.fields {
		t := f.typ
		if f.embedded {
			if f.ptr {
				t = "*" + f.typ
			}
			fmt.Fprintf(&b, "\t%s\n", t)
			continue
		}
		if f.tag != "" {
			fmt.Fprintf(&b, "\t%s %s `hseq:\"%s\"`\n", f.name, t, f.tag)
		} else {
			fmt.Fprintf(&b, "\t%s %s\n", f.name, t)
		}
	}
	b.WriteString("}")
	return b.String()
}

func allStructs(s *structT, out *[]*structT) {
	for _, f := range s.fields {
		if f.sub != nil {
			allStructs(f.sub, out)
		}
	}
	for _, o := range *out {
		if o == s {
			return // the same struct type embedded through two branches is declared once
		}
	}
	*out = append(*out, s)
}

func val(k *leafKind, tn string, i int) string {
	return strings.ReplaceAll(k.vals[i], "%T", tn)
}

// emit writes one shape: declarations, fill function, checks.
func (g *gen) emit(sh *shape) {
	if sh.only != "" && !g.want(sh.only) {
		return
	}
	var structs []*structT
	allStructs(sh.root, &structs)
	var src []string
	src = append(src, sh.decls...)
	for _, s := range structs {
		src = append(src, structDecl(s))
	}
	for _, d := range src {
		g.pf("%s\n\n", d)
	}
	g.pf("type %s_twin %s\n\n", sh.root.name, sh.root.name)
	S := sh.root.name
	var es []entry
	unfold(sh.root, "", false, 0, &es)

	// fill functions, one per struct type
	for _, s := range structs {
		g.pf("func fill_%s(p *%s, k int) {\n", s.name, s.name)
		for _, f := range s.fields {
			switch {
			case f.leaf != nil:
				g.pf("\tp.%s = [...]%s{%s, %s, %s}[k]\n", f.name, f.typ, val(f.leaf, f.typ, 0), val(f.leaf, f.typ, 1), val(f.leaf, f.typ, 2))
			case f.sub != nil && f.ptr:
				g.pf("\tp.%s = new(%s)\n\tfill_%s(p.%s, k)\n", f.name, f.typ, f.typ, f.name)
			case f.sub != nil:
				g.pf("\tfill_%s(&p.%s, k)\n", f.typ, f.name)
			}
		}
		g.pf("}\n\n")
		g.pf("func mk_%s(k int) %s { var z %s; fill_%s(&z, k); return z }\n\n", s.name, s.name, s.name, s.name)
	}

	// which entry is the first with its key / its type
	firstKey, firstType := map[string]int{}, map[string]int{}
	typeOf := func(e entry) string {
		if e.f.embedded && e.f.ptr {
			return "*" + e.f.typ
		}
		return e.f.typ
	}
	for i := len(es) - 1; i >= 0; i-- {
		firstKey[es[i].f.key()] = i
		firstType[typeOf(es[i])] = i
	}
	valsOf := func(e entry) string {
		t := typeOf(e)
		switch {
		case e.f.leaf != nil:
			return fmt.Sprintf("[]%s{%s, %s, %s}", t, val(e.f.leaf, t, 0), val(e.f.leaf, t, 1), val(e.f.leaf, t, 2))
		case e.f.ptr:
			return fmt.Sprintf("[]%s{new(%s), nil, func() %s { z := mk_%s(2); return &z }()}", t, e.f.typ, t, e.f.typ)
		default:
			return fmt.Sprintf("[]%s{mk_%s(0), mk_%s(1), mk_%s(2)}", t, e.f.typ, e.f.typ, e.f.typ)
		}
	}

	g.pf("func init() {\n\trt.Register(rt.Shape{Name: %q, Family: %q, Source: %q, Run: func(c *rt.Ctx) {\n", sh.name, sh.family, strings.Join(src, "\n"))
	g.pf("\t\tfill := fill_%s\n\t\t_ = fill\n", S)
	if sh.only != "" {
		sh.extra(g, sh)
		g.pf("\t}})\n}\n\n")
		return
	}

	// ---- C01 / C02: one lens per focusable entry, by type and by name, Lens and Reflector
	g.pf("\t\tif c.Is(\"C01\") || c.Is(\"C02\") {\n")
	for i, e := range es {
		if !g.want("C01") && !g.want("C02") {
			break
		}
		t := typeOf(e)
		sel := fmt.Sprintf("func(p *%s) *%s { return &p%s }", S, t, e.path)
		byType := firstType[t] == i
		byName := firstKey[e.f.key()] == i
		if e.behindPtr {
			// the statement leaves the outcome open: refused, or a lens that really goes through the pointer
			g.pf("\t\t\tif c.Is(\"C02\") {\n")
			if byType {
				g.pf("\t\t\t\trt.MayDerive(c, %q, func() optics.Lens[%s, %s] { return optics.ForProduct1[%s, %s]() }, %s, %s, fill)\n",
					fmt.Sprintf("ForProduct1[%s, %s]()", S, t), S, t, S, t, sel, valsOf(e))
			}
			if byName {
				g.pf("\t\t\t\trt.MayDerive(c, %q, func() optics.Lens[%s, %s] { return optics.ForProduct1[%s, %s](%q) }, %s, %s, fill)\n",
					fmt.Sprintf("ForProduct1[%s, %s](%q)", S, t, e.f.key()), S, t, S, t, e.f.key(), sel, valsOf(e))
			}
			g.pf("\t\t\t}\n")
			continue
		}
		g.pf("\t\t\t{\n\t\t\t\tsel, vals := %s, %s\n\t\t\t\t_, _ = sel, vals\n", sel, valsOf(e))
		if byType {
			lbl := fmt.Sprintf("[%s, %s]() (field %s)", S, t, e.path)
			g.pf("\t\t\t\trt.Derive(c, %q, func() { rt.Lens(c, %q, optics.ForProduct1[%s, %s](), sel, vals, fill) })\n", "ForProduct1"+lbl, "ForProduct1"+lbl, S, t)
			g.pf("\t\t\t\trt.Derive(c, %q, func() { rt.Reflector(c, %q, optics.ForSpectrum1[%s, %s](), sel, vals, fill) })\n", "ForSpectrum1"+lbl, "ForSpectrum1"+lbl, S, t)
		}
		if byName {
			lbl := fmt.Sprintf("[%s, %s](%q) (field %s)", S, t, e.f.key(), e.path)
			g.pf("\t\t\t\trt.Derive(c, %q, func() { rt.Lens(c, %q, optics.ForProduct1[%s, %s](%q), sel, vals, fill) })\n", "ForProduct1"+lbl, "ForProduct1"+lbl, S, t, e.f.key())
			g.pf("\t\t\t\trt.Derive(c, %q, func() { rt.Reflector(c, %q, optics.ForSpectrum1[%s, %s](%q), sel, vals, fill) })\n", "ForSpectrum1"+lbl, "ForSpectrum1"+lbl, S, t, e.f.key())
		}
		g.pf("\t\t\t}\n")
	}
	g.pf("\t\t}\n")

	// ---- C02: requests that must be refused
	g.pf("\t\tif c.Is(\"C02\") {\n")
	// types no generated struct has a field of; every field type is assignable to the last one
	foreign := []string{"rt.ForeignA", "rt.ForeignB", "rt.ForeignC", "any"}
	for i, e := range es {
		if firstKey[e.f.key()] != i || !g.want("C02") {
			continue
		}
		t := typeOf(e)
		var others []string
		seen := map[string]bool{t: true}
		for _, o := range es {
			if ot := typeOf(o); !seen[ot] {
				seen[ot] = true
				others = append(others, ot)
			}
		}
		if e.f.leaf != nil {
			// a distinct named type with the same underlying type
			if !e.f.embedded && !strings.HasPrefix(e.f.typ, "D") {
				others = append(others, e.f.typ+"_same")
			}
			if e.f.leaf.under != "struct{}" && e.f.leaf.under != "any" {
				others = append(others, e.f.leaf.under)
			}
		}
		others = append(others, foreign...)
		for _, x := range others {
			g.pf("\t\t\trt.MustPanic(c, \"name-type-mismatch\", %q, func() { optics.ForProduct1[%s, %s](%q) })\n", fmt.Sprintf("ForProduct1[%s, %s](%q): the field named %q has type %s", S, x, e.f.key(), e.f.key(), t), S, x, e.f.key())
			g.pf("\t\t\trt.MustPanic(c, \"name-type-mismatch\", %q, func() { optics.ForSpectrum1[%s, %s](%q) })\n", fmt.Sprintf("ForSpectrum1[%s, %s](%q): the field named %q has type %s", S, x, e.f.key(), e.f.key(), t), S, x, e.f.key())
		}
	}
	if g.want("C02") {
		// a pointer to a distinct named type with the identical underlying struct is not a pointer to the container
		for i, e := range es {
			if e.behindPtr || firstType[typeOf(e)] != i {
				continue
			}
			t := typeOf(e)
			g.pf("\t\t\trt.Derive(c, \"reflector for the twin-type argument\", func() {\n\t\t\t\ttw := new(%s_twin)\n\t\t\t\tfill((*%s)(tw), 0)\n\t\t\t\tvals := %s\n", S, S, valsOf(e))
			g.pf("\t\t\t\trt.ReflectorRejects(c, %q, optics.ForSpectrum1[%s, %s](), any(tw), func() []byte { return rt.Raw(tw) }, vals[2])\n\t\t\t})\n", fmt.Sprintf("ForSpectrum1[%s, %s]() given a *%s_twin (distinct named type, identical underlying struct)", S, t, S), S, t)
			break
		}
	}
	for _, x := range foreign {
		if !g.want("C02") {
			break
		}
		g.pf("\t\t\trt.MustPanic(c, \"type-absent\", %q, func() { optics.ForProduct1[%s, %s]() })\n", fmt.Sprintf("ForProduct1[%s, %s](): no field has that type", S, x), S, x)
		g.pf("\t\t\trt.MustPanic(c, \"type-absent\", %q, func() { optics.ForSpectrum1[%s, %s]() })\n", fmt.Sprintf("ForSpectrum1[%s, %s](): no field has that type", S, x), S, x)
	}
	if g.want("C02") {
		e := es[0]
		t := typeOf(e)
		for _, bad := range []string{"nope", strings.ToUpper(e.f.key()) + "x", ""} {
			if bad == "" {
				// an explicit empty name is a name no field has
				g.pf("\t\t\trt.MustPanic(c, \"unknown-name\", %q, func() { optics.ForProduct1[%s, %s](\"\") })\n", fmt.Sprintf("ForProduct1[%s, %s](\"\")", S, t), S, t)
				continue
			}
			g.pf("\t\t\trt.MustPanic(c, \"unknown-name\", %q, func() { optics.ForProduct1[%s, %s](%q) })\n", fmt.Sprintf("ForProduct1[%s, %s](%q)", S, t, bad), S, t, bad)
			g.pf("\t\t\trt.MustPanic(c, \"unknown-name\", %q, func() { optics.ForSpectrum1[%s, %s](%q) })\n", fmt.Sprintf("ForSpectrum1[%s, %s](%q)", S, t, bad), S, t, bad)
		}
		// the container type parameter must be the struct itself
		for _, cont := range []string{"*" + S, "**" + S, "[]" + S, "[1]" + S, "map[string]" + S, "int"} {
			g.pf("\t\t\trt.MustPanic(c, \"container-not-struct\", %q, func() { optics.ForProduct1[%s, %s]() })\n", fmt.Sprintf("ForProduct1[%s, %s]()", cont, t), cont, t)
			g.pf("\t\t\trt.MustPanic(c, \"container-not-struct\", %q, func() { optics.ForProduct1[%s, %s](%q) })\n", fmt.Sprintf("ForProduct1[%s, %s](%q)", cont, t, e.f.key()), cont, t, e.f.key())
			g.pf("\t\t\trt.MustPanic(c, \"container-not-struct\", %q, func() { optics.ForSpectrum1[%s, %s](%q) })\n", fmt.Sprintf("ForSpectrum1[%s, %s](%q)", cont, t, e.f.key()), cont, t, e.f.key())
		}
	}
	g.pf("\t\t}\n")

	// ---- C03: the unfolding
	if !g.want("C03") {
		if sh.extra != nil {
			sh.extra(g, sh)
		}
		g.pf("\t}})\n}\n\n")
		return
	}
	g.pf("\t\tif c.Is(\"C03\") {\n\t\t\trt.Listing(c, []rt.E[%s]{\n", S)
	for _, e := range es {
		t := typeOf(e)
		addr := "nil"
		if !e.behindPtr {
			addr = fmt.Sprintf("func(p *%s) unsafe.Pointer { return unsafe.Pointer(&p%s) }", S, e.path)
		}
		g.pf("\t\t\t\t{Name: %q, Key: %q, Type: reflect.TypeOf((*%s)(nil)).Elem(), Anonymous: %v, BehindPtr: %v, Addr: %s},\n", e.f.name, e.f.key(), t, e.f.embedded, e.behindPtr, addr)
	}
	g.pf("\t\t\t})\n")
	// lookups by type: every type of the shape (first match), and types no field has (must panic)
	seenT := map[string]bool{}
	var distinct []string
	for _, e := range es {
		t := typeOf(e)
		if seenT[t] {
			continue
		}
		seenT[t] = true
		distinct = append(distinct, t)
		g.pf("\t\t\trt.TypeIs(c, %q, func() hseq.Seq[%s] { return hseq.Seq[%s]{hseq.ForType[%s](hseq.New[%s]())} }, []int{%d})\n", fmt.Sprintf("ForType[%s]", t), S, S, t, S, firstType[t])
		g.pf("\t\t\trt.TypeIs(c, %q, func() hseq.Seq[%s] { return hseq.New1[%s, %s]() }, []int{%d})\n", fmt.Sprintf("New1[%s, %s]", S, t), S, S, t, firstType[t])
		if e.f.leaf != nil && !e.f.embedded && !strings.HasPrefix(e.f.typ, "D") {
			g.pf("\t\t\trt.MustPanic(c, \"fortype-absent\", %q, func() { hseq.ForType[%s_same](hseq.New[%s]()) })\n", fmt.Sprintf("ForType with a distinct named type of underlying %s", e.f.leaf.under), e.f.typ, S)
		}
	}
	for _, x := range foreign {
		g.pf("\t\t\trt.MustPanic(c, \"fortype-absent\", %q, func() { hseq.ForType[%s](hseq.New[%s]()) })\n", "ForType["+x+"]", x, S)
	}
	// NewN by N-tuples of types: forward and reversed order of the distinct types (N <= 9)
	if n := len(distinct); n >= 2 && n <= 9 {
		fw, bw := strings.Join(distinct, ", "), ""
		var idf, idb []string
		for i := range distinct {
			idf = append(idf, fmt.Sprint(firstType[distinct[i]]))
		}
		rev := make([]string, n)
		for i := range distinct {
			rev[n-1-i] = distinct[i]
		}
		bw = strings.Join(rev, ", ")
		for i := range rev {
			idb = append(idb, fmt.Sprint(firstType[rev[i]]))
		}
		g.pf("\t\t\trt.TypeIs(c, %q, func() hseq.Seq[%s] { return hseq.New%d[%s, %s]() }, []int{%s})\n", fmt.Sprintf("New%d[%s, %s]", n, S, fw), S, n, S, fw, strings.Join(idf, ", "))
		g.pf("\t\t\trt.TypeIs(c, %q, func() hseq.Seq[%s] { return hseq.New%d[%s, %s]() }, []int{%s})\n", fmt.Sprintf("New%d[%s, %s]", n, S, bw), S, n, S, bw, strings.Join(idb, ", "))
	}
	g.pf("\t\t}\n")

	if sh.extra != nil {
		sh.extra(g, sh)
	}
	g.pf("\t}})\n}\n\n")
}

// productN emits ForProductN / ForSpectrumN / ForShapeN over the focusable leaves of the shape in the given order.
func productN(g *gen, sh *shape, order []entry, byName bool, tag string) {
	S := sh.root.name
	n := len(order)
	if n < 2 || n > 9 {
		return
	}
	var ts, names, lv, rv []string
	for i, e := range order {
		ts = append(ts, e.f.typ)
		names = append(names, fmt.Sprintf("%q", e.f.key()))
		lv = append(lv, fmt.Sprintf("l%d", i))
		rv = append(rv, fmt.Sprintf("r%d", i))
	}
	args := ""
	if byName {
		args = strings.Join(names, ", ")
	}
	lbl := fmt.Sprintf("%s[%s, %s](%s)", tag, S, strings.Join(ts, ", "), args)
	if g.want("C04") && (n == 2 || n == 3) {
		g.pf("\t\tif c.Is(\"C04\") {\n\t\t\trt.Derive(c, %q, func() {\n", fmt.Sprintf("ForShape%d%s", n, lbl))
		g.pf("\t\t\t\trt.Shape%d(c, %q, optics.ForShape%d[%s, %s](%s)", n, fmt.Sprintf("ForShape%d%s", n, lbl), n, S, strings.Join(ts, ", "), args)
		for _, e := range order {
			g.pf(", func(p *%s) *%s { return &p%s }", S, e.f.typ, e.path)
		}
		for _, e := range order {
			g.pf(", []%s{%s, %s, %s}", e.f.typ, val(e.f.leaf, e.f.typ, 0), val(e.f.leaf, e.f.typ, 1), val(e.f.leaf, e.f.typ, 2))
		}
		g.pf(", fill)\n\t\t\t})\n\t\t}\n")
	}
	if g.want("C02") && byName {
		emitTooFew(g, S, n, ts, names)
	}
	if !g.want("C01") {
		return
	}
	g.pf("\t\tif c.Is(\"C01\") {\n\t\t\trt.Derive(c, %q, func() {\n", "ForProduct"+fmt.Sprint(n)+lbl)
	g.pf("\t\t\t\t%s := optics.ForProduct%d[%s, %s](%s)\n", strings.Join(lv, ", "), n, S, strings.Join(ts, ", "), args)
	for i, e := range order {
		g.pf("\t\t\t\trt.Lens(c, %q, l%d, func(p *%s) *%s { return &p%s }, []%s{%s, %s, %s}, fill)\n", fmt.Sprintf("lens #%d of ForProduct%d%s", i, n, lbl), i, S, e.f.typ, e.path, e.f.typ, val(e.f.leaf, e.f.typ, 0), val(e.f.leaf, e.f.typ, 1), val(e.f.leaf, e.f.typ, 2))
	}
	g.pf("\t\t\t})\n\t\t\trt.Derive(c, %q, func() {\n", "ForSpectrum"+fmt.Sprint(n)+lbl)
	g.pf("\t\t\t\t%s := optics.ForSpectrum%d[%s, %s](%s)\n", strings.Join(rv, ", "), n, S, strings.Join(ts, ", "), args)
	for i, e := range order {
		g.pf("\t\t\t\trt.Reflector(c, %q, r%d, func(p *%s) *%s { return &p%s }, []%s{%s, %s, %s}, fill)\n", fmt.Sprintf("reflector #%d of ForSpectrum%d%s", i, n, lbl), i, S, e.f.typ, e.path, e.f.typ, val(e.f.leaf, e.f.typ, 0), val(e.f.leaf, e.f.typ, 1), val(e.f.leaf, e.f.typ, 2))
	}
	g.pf("\t\t\t})\n\t\t}\n")
}

func emitTooFew(g *gen, S string, n int, ts, names []string) {
	{
		g.pf("\t\tif c.Is(\"C02\") {\n")
		g.pf("\t\t\trt.MustPanic(c, \"too-few-names\", %q, func() { optics.ForProduct%d[%s, %s](%s) })\n", fmt.Sprintf("ForProduct%d with %d names", n, n-1), n, S, strings.Join(ts, ", "), strings.Join(names[:n-1], ", "))
		g.pf("\t\t\trt.MustPanic(c, \"too-few-names\", %q, func() { optics.ForSpectrum%d[%s, %s](%s) })\n", fmt.Sprintf("ForSpectrum%d with %d names", n, n-1), n, S, strings.Join(ts, ", "), strings.Join(names[:n-1], ", "))
		g.pf("\t\t\tspare := []string{%s}\n", strings.Join(names, ", "))
		g.pf("\t\t\trt.MustPanic(c, \"too-few-names\", %q, func() { optics.ForProduct%d[%s, %s](spare[:%d]...) })\n", fmt.Sprintf("ForProduct%d with %d names passed as a sub-slice that has spare capacity", n, n-1), n, S, strings.Join(ts, ", "), n-1)
		g.pf("\t\t\trt.MustPanic(c, \"too-few-names\", %q, func() { optics.ForSpectrum%d[%s, %s](spare[:%d]...) })\n", fmt.Sprintf("ForSpectrum%d with %d names passed as a sub-slice that has spare capacity", n, n-1), n, S, strings.Join(ts, ", "), n-1)
		g.pf("\t\t}\n")
	}
}

func focusableLeaves(sh *shape) []entry {
	var es, out []entry
	unfold(sh.root, "", false, 0, &es)
	seenK := map[string]bool{}
	for _, e := range es {
		if e.f.leaf != nil && !e.behindPtr && !seenK[e.f.key()] {
			out = append(out, e)
		}
		seenK[e.f.key()] = true
	}
	return out
}

func permutations(es []entry, f func([]entry)) {
	var rec func(p []entry, used []bool)
	rec = func(p []entry, used []bool) {
		if len(p) == len(es) {
			f(append([]entry{}, p...))
			return
		}
		for i := range es {
			if !used[i] {
				used[i] = true
				rec(append(p, es[i]), used)
				used[i] = false
			}
		}
	}
	rec(nil, make([]bool, len(es)))
}

// ---- shape families -------------------------------------------------------

func flatShapes(maxFields int) []*shape {
	var out []*shape
	idx := 0
	var rec func(cs []int)
	rec = func(cs []int) {
		if len(cs) > 0 {
			idx++
			sh := &shape{name: fmt.Sprintf("F%d", idx), family: "flat"}
			st := &structT{name: sh.name}
			for p, c := range cs {
				st.fields = append(st.fields, mkLeaf(sh, sh.name, fmt.Sprintf("f%d", p), c, idx+p, idx+p))
			}
			sh.root = st
			nIdx := idx
			sh.extra = func(g *gen, s *shape) {
				ls := focusableLeaves(s)
				if len(ls) < 2 {
					return
				}
				// identity order for every shape; every order for a stride of shapes (all orders of 2 fields)
				n := 0
				permutations(ls, func(p []entry) {
					if n == 0 || len(ls) == 2 || nIdx%8 == 0 {
						productN(g, s, p, false, "")
						productN(g, s, p, true, "")
					}
					n++
				})
			}
			out = append(out, sh)
		}
		if len(cs) == maxFields {
			return
		}
		for c := range classes {
			rec(append(append([]int{}, cs...), c))
		}
	}
	rec(nil)
	return out
}

// embedShapes: value embedding to the given depth, with 0-1 fields of classes {(1,1),(8,8),(16,8)} before and
// after the embedded struct at every level; ptrLevel >= 0 embeds that level by pointer.
func embedShapes(prefix, family string, depth int, prePost [][]int, ptrLevel int, start int) []*shape {
	var out []*shape
	choices := []int{-1, 1, 5, 6}
	idx := start
	for _, pp := range prePost {
		idx++
		sh := &shape{name: fmt.Sprintf("%s%d", prefix, idx), family: family}
		// innermost struct
		// every third shape embeds struct types whose names are unexported (the embedded field is then unexported too,
		// its promoted members are fields like any other)
		sub := sh.name
		if idx%3 == 2 {
			sub = strings.ToLower(sub[:1]) + sub[1:]
		}
		inner := &structT{name: fmt.Sprintf("%s_L%d", sub, depth)}
		inner.fields = append(inner.fields, mkLeaf(sh, sh.name, "x", 4, idx, idx), mkLeaf(sh, sh.name, "y", 1, idx+1, idx+1))
		cur := inner
		for lvl := depth - 1; lvl >= 0; lvl-- {
			name := fmt.Sprintf("%s_L%d", sub, lvl)
			if lvl == 0 {
				name = sh.name
			}
			st := &structT{name: name}
			pre, post := choices[pp[2*lvl]], choices[pp[2*lvl+1]]
			if pre >= 0 {
				st.fields = append(st.fields, mkLeaf(sh, sh.name, fmt.Sprintf("p%d", lvl), pre, idx+lvl, idx+lvl+1))
			}
			st.fields = append(st.fields, field{name: cur.name, typ: cur.name, embedded: true, ptr: lvl == ptrLevel, sub: cur})
			if post >= 0 {
				st.fields = append(st.fields, mkLeaf(sh, sh.name, fmt.Sprintf("q%d", lvl), post, idx+lvl+1, idx+lvl+2))
			}
			cur = st
		}
		sh.root = cur
		sh.extra = func(g *gen, s *shape) {
			ls := focusableLeaves(s)
			productN(g, s, ls, false, "")
			productN(g, s, ls, true, "")
			if len(ls) >= 2 {
				rev := make([]entry, len(ls))
				for i := range ls {
					rev[len(ls)-1-i] = ls[i]
				}
				productN(g, s, rev, true, "")
			}
		}
		out = append(out, sh)
	}
	return out
}

// combos enumerates all assignments of k choices to n slots.
func combos(n, k int) [][]int {
	out := [][]int{{}}
	for i := 0; i < n; i++ {
		var next [][]int
		for _, p := range out {
			for c := 0; c < k; c++ {
				next = append(next, append(append([]int{}, p...), c))
			}
		}
		out = next
	}
	return out
}

// uniform: the same pre/post choice at every level.
func uniform(depth, k int) [][]int {
	var out [][]int
	for a := 0; a < k; a++ {
		for b := 0; b < k; b++ {
			var p []int
			for l := 0; l < depth; l++ {
				p = append(p, a, b)
			}
			out = append(out, p)
		}
	}
	return out
}

// special shapes: embedded non-struct named types, duplicate names and types across depths
func specialShapes() []*shape {
	var out []*shape
	{ // embedded non-struct named type between two fields
		sh := &shape{name: "N1", family: "embed-nonstruct"}
		sh.decls = append(sh.decls, "type N1_E int64")
		k := classes[5][0]
		st := &structT{name: "N1"}
		st.fields = append(st.fields, mkLeaf(sh, "N1", "a", 1, 0, 0))
		st.fields = append(st.fields, field{name: "N1_E", typ: "N1_E", leaf: &k, embedded: true})
		st.fields = append(st.fields, mkLeaf(sh, "N1", "b", 2, 0, 1))
		sh.root = st
		out = append(out, sh)
	}
	{ // names that differ only by case, all of one type: lookups by name are exact
		sh := &shape{name: "K1", family: "dup"}
		sh.decls = append(sh.decls, "type K1_T int32", "type K1_T_same int32")
		kT, kP := classes[4][0], classes[1][1]
		sh.decls = append(sh.decls, "type K1_P int8", "type K1_P_same int8")
		st := &structT{name: "K1"}
		st.fields = []field{{name: "id", typ: "K1_T", leaf: &kT}, {name: "Pad", typ: "K1_P", leaf: &kP}, {name: "ID", typ: "K1_T", leaf: &kT}, {name: "iD", typ: "K1_T", leaf: &kT}, {name: "Id", typ: "K1_T", leaf: &kT, tag: "pad"}}
		sh.root = st
		out = append(out, sh)
	}
	{ // the same Go field name with the same type in two value-embedded structs, told apart by tags
		sh := &shape{name: "M1", family: "dup"}
		sh.decls = append(sh.decls, "type M1_T int32", "type M1_T_same int32", "type M1_U string", "type M1_U_same string", "type M1_P int8", "type M1_P_same int8")
		kT, kU, kP := classes[4][0], classes[6][0], classes[1][1]
		a := &structT{name: "M1_A", fields: []field{{name: "ID", typ: "M1_T", leaf: &kT, tag: "src"}, {name: "N", typ: "M1_U", leaf: &kU}}}
		b := &structT{name: "M1_B", fields: []field{{name: "Pad", typ: "M1_P", leaf: &kP}, {name: "ID", typ: "M1_T", leaf: &kT, tag: "dst"}}}
		sh.root = &structT{name: "M1", fields: []field{{name: "M1_A", typ: "M1_A", embedded: true, sub: a}, {name: "M1_B", typ: "M1_B", embedded: true, sub: b}}}
		out = append(out, sh)
	}
	{ // a field behind an embedded pointer whose name AND pointer-offset + inner-offset coincide with a field of the outer struct
		sh := &shape{name: "Q1", family: "embedptr"}
		sh.decls = append(sh.decls, "type Q1_P int64", "type Q1_P_same int64", "type Q1_W int64", "type Q1_W_same int64", "type Q1_T int32", "type Q1_T_same int32", "type Q1_V int32", "type Q1_V_same int32")
		k64, k32 := classes[5][0], classes[4][0]
		in := &structT{name: "Q1_In", fields: []field{{name: "Pad", typ: "Q1_P", leaf: &k64}, {name: "X", typ: "Q1_W", leaf: &k64}}}
		sh.root = &structT{name: "Q1", fields: []field{{name: "Q1_In", typ: "Q1_In", embedded: true, ptr: true, sub: in}, {name: "X", typ: "Q1_T", leaf: &k32}, {name: "Y", typ: "Q1_V", leaf: &k32}}}
		out = append(out, sh)
	}
	{ // one struct type embedded twice, through two different branches: both copies are listed with their fields
		sh := &shape{name: "B1", family: "dup"}
		sh.decls = append(sh.decls, "type B1_T int32", "type B1_T_same int32", "type B1_U string", "type B1_U_same string", "type B1_V int8", "type B1_V_same int8", "type B1_W int64", "type B1_W_same int64")
		kT, kU, kV, kW := classes[4][0], classes[6][0], classes[1][1], classes[5][0]
		base := &structT{name: "B1_Base", fields: []field{{name: "X", typ: "B1_T", leaf: &kT}, {name: "Y", typ: "B1_U", leaf: &kU}}}
		left := &structT{name: "B1_Left", fields: []field{{name: "B1_Base", typ: "B1_Base", embedded: true, sub: base}, {name: "L", typ: "B1_V", leaf: &kV}}}
		right := &structT{name: "B1_Right", fields: []field{{name: "P", typ: "B1_W", leaf: &kW}, {name: "B1_Base", typ: "B1_Base", embedded: true, sub: base}}}
		sh.root = &structT{name: "B1", fields: []field{{name: "B1_Left", typ: "B1_Left", embedded: true, sub: left}, {name: "B1_Right", typ: "B1_Right", embedded: true, sub: right}}}
		out = append(out, sh)
	}
	{ // a field behind an embedded pointer with the same name AND type as an outer field that sits at another offset
		sh := &shape{name: "Q2", family: "embedptr"}
		sh.decls = append(sh.decls, "type Q2_P int64", "type Q2_P_same int64", "type Q2_T int32", "type Q2_T_same int32", "type Q2_V int32", "type Q2_V_same int32")
		k64, k32 := classes[5][0], classes[4][0]
		in := &structT{name: "Q2_In", fields: []field{{name: "Pad", typ: "Q2_P", leaf: &k64}, {name: "X", typ: "Q2_T", leaf: &k32}}}
		sh.root = &structT{name: "Q2", fields: []field{{name: "Q2_In", typ: "Q2_In", embedded: true, ptr: true, sub: in}, {name: "Y", typ: "Q2_V", leaf: &k32}, {name: "X", typ: "Q2_T", leaf: &k32}}}
		out = append(out, sh)
	}
	for v := 0; v < 4; v++ { // same field name at two depths, different types; same type at two depths, different names
		sh := &shape{name: fmt.Sprintf("D%d", v+1), family: "dup"}
		in := &structT{name: sh.name + "_In"}
		sh.decls = append(sh.decls, fmt.Sprintf("type %s_T int32", sh.name), fmt.Sprintf("type %s_U string", sh.name), fmt.Sprintf("type %s_V int8", sh.name))
		kT, kU, kV := classes[4][0], classes[6][0], classes[1][1]
		T, U, V := sh.name+"_T", sh.name+"_U", sh.name+"_V"
		in.fields = []field{{name: "X", typ: U, leaf: &kU}, {name: "W", typ: T, leaf: &kT}}
		outer := &structT{name: sh.name}
		emb := field{name: in.name, typ: in.name, embedded: true, ptr: v >= 2, sub: in}
		x := field{name: "X", typ: T, leaf: &kT}
		z := field{name: "Z", typ: V, leaf: &kV, tag: "X2"}
		if v%2 == 0 {
			outer.fields = []field{z, x, emb} // outer X listed first
		} else {
			outer.fields = []field{z, emb, x} // the embedded X listed first
		}
		sh.root = outer
		out = append(out, sh)
	}
	return out
}

// joinShapes: nested named-field structs (not embedded) to the given depth, the leaf either a plain field of the
// innermost struct or promoted from a struct embedded by value in it; optional fields before and after at each level.
func joinShapes(depth int, prePost [][]int, viaEmbedded bool, prefix string) []*shape {
	var out []*shape
	choices := []int{-1, 1, 5, 6}
	for idx, pp := range prePost {
		sh := &shape{name: fmt.Sprintf("%s%d", prefix, idx+1), family: "join", only: "C04"}
		levels := depth + 1
		var cur *structT
		names := []string{"A", "B", "C", "D"}
		var leaf field
		for lvl := levels - 1; lvl >= 0; lvl-- {
			st := &structT{name: fmt.Sprintf("%s_L%d", sh.name, lvl)}
			if lvl == 0 {
				st.name = sh.name
			}
			pre, post := choices[pp[2*lvl]], choices[pp[2*lvl+1]]
			if pre >= 0 {
				st.fields = append(st.fields, mkLeaf(sh, sh.name, fmt.Sprintf("p%d", lvl), pre, idx+lvl, idx+lvl+1))
			}
			if lvl == levels-1 {
				leaf = mkLeaf(sh, sh.name, "c", 4+(idx%4), idx, idx)
				if viaEmbedded {
					emb := &structT{name: sh.name + "_E"}
					emb.fields = []field{mkLeaf(sh, sh.name, "ex", 1, idx, idx), leaf}
					st.fields = append(st.fields, field{name: emb.name, typ: emb.name, embedded: true, sub: emb})
				} else {
					st.fields = append(st.fields, leaf)
				}
			} else {
				st.fields = append(st.fields, field{name: names[lvl], typ: cur.name, sub: cur})
			}
			if post >= 0 {
				st.fields = append(st.fields, mkLeaf(sh, sh.name, fmt.Sprintf("q%d", lvl), post, idx+lvl+1, idx+lvl+2))
			}
			cur = st
		}
		sh.root = cur
		lf, via := leaf, viaEmbedded
		sh.extra = func(g *gen, s *shape) {
			R := s.root.name
			// chain of struct types and field names from the root to the innermost struct
			var types, fnames []string
			st := s.root
			for {
				types = append(types, st.name)
				var next *structT
				for _, f := range st.fields {
					if f.sub != nil && !f.embedded {
						next = f.sub
						fnames = append(fnames, f.name)
					}
				}
				if next == nil {
					break
				}
				st = next
			}
			path := ""
			for _, n := range fnames {
				path += "." + n
			}
			if via {
				path += "." + s.name + "_E"
			}
			path += "." + lf.name
			vals := fmt.Sprintf("[]%s{%s, %s, %s}", lf.typ, val(lf.leaf, lf.typ, 0), val(lf.leaf, lf.typ, 1), val(lf.leaf, lf.typ, 2))
			g.pf("\t\tif c.Is(\"C04\") {\n\t\t\trt.Derive(c, \"Join over %s\", func() {\n", R+path)
			for _, byName := range []bool{true, false} {
				var ls []string
				for i := range fnames {
					arg := ""
					if byName {
						arg = fmt.Sprintf("%q", fnames[i])
					}
					ls = append(ls, fmt.Sprintf("optics.ForProduct1[%s, %s](%s)", types[i], types[i+1], arg))
				}
				arg := ""
				if byName {
					arg = fmt.Sprintf("%q", lf.key())
				}
				ls = append(ls, fmt.Sprintf("optics.ForProduct1[%s, %s](%s)", types[len(types)-1], lf.typ, arg))
				// left-nested and right-nested association
				left := ls[0]
				for _, l := range ls[1:] {
					left = fmt.Sprintf("optics.Join(%s, %s)", left, l)
				}
				right := ls[len(ls)-1]
				for i := len(ls) - 2; i >= 0; i-- {
					right = fmt.Sprintf("optics.Join(%s, %s)", ls[i], right)
				}
				sel := fmt.Sprintf("func(p *%s) *%s { return &p%s }", R, lf.typ, path)
				g.pf("\t\t\t\trt.Lens(c, %q, %s, %s, %s, fill)\n", fmt.Sprintf("left-nested Join to %s%s (by name: %v)", R, path, byName), left, sel, vals)
				if len(ls) > 2 {
					g.pf("\t\t\t\trt.Lens(c, %q, %s, %s, %s, fill)\n", fmt.Sprintf("right-nested Join to %s%s (by name: %v)", R, path, byName), right, sel, vals)
				}
			}
			g.pf("\t\t\t})\n\t\t}\n")
		}
		out = append(out, sh)
	}
	return out
}

func main() {
	out := flag.String("out", "", "output directory (a Go module root)")
	tier := flag.String("tier", "quick", "quick | thorough")
	shards := flag.Int("shards", 16, "number of packages")
	rtPath := flag.String("rt", "github.com/fogfish/golem/verifshapes", "import path of the run-time package")
	mod := flag.String("mod", "github.com/fogfish/golem", "module path of the output")
	prop := flag.String("prop", "", "generate only what this property needs")
	flag.Parse()

	var all []*shape
	// VERIF_SHAPES=mini: a reduced shape set (compiles in a few seconds) used by the mutation sweep as a first
	// stage; mutants that survive it are run against the full quick tier. Never used by a registered check.
	mini := os.Getenv("VERIF_SHAPES") == "mini"
	if mini {
		all = append(all, flatShapes(2)...)
		all = append(all, embedShapes("E1_", "embed", 1, combos(2, 4), -1, 0)...)
		all = append(all, embedShapes("E2_", "embed", 2, uniform(2, 4), -1, 0)...)
		all = append(all, embedShapes("E3_", "embed", 3, uniform(3, 2), -1, 0)...)
		all = append(all, embedShapes("P1_", "embedptr", 1, uniform(1, 4), 0, 0)...)
		all = append(all, embedShapes("P2b_", "embedptr", 2, uniform(2, 2), 1, 0)...)
		all = append(all, specialShapes()...)
		if *prop == "" || *prop == "C04" {
			all = append(all, joinShapes(1, uniform(2, 3), false, "J1_")...)
			all = append(all, joinShapes(2, uniform(3, 2), false, "J2_")...)
			all = append(all, joinShapes(2, uniform(3, 2), true, "J2e_")...)
		}
	} else if *tier == "thorough" {
		all = append(all, flatShapes(4)...)
	} else {
		all = append(all, flatShapes(3)...)
	}
	if !mini {
		all = append(all, embedShapes("E1_", "embed", 1, combos(2, 4), -1, 0)...)
		all = append(all, embedShapes("E2_", "embed", 2, combos(4, 4), -1, 0)...)
		if *tier == "thorough" {
			all = append(all, embedShapes("E3_", "embed", 3, combos(6, 3), -1, 0)...)
		} else {
			all = append(all, embedShapes("E3_", "embed", 3, uniform(3, 4), -1, 0)...)
		}
		// pointer embedding at each level of depth 1 and 2
		all = append(all, embedShapes("P1_", "embedptr", 1, combos(2, 4), 0, 0)...)
		all = append(all, embedShapes("P2a_", "embedptr", 2, uniform(2, 4), 0, 0)...)
		all = append(all, embedShapes("P2b_", "embedptr", 2, uniform(2, 4), 1, 0)...)
		all = append(all, specialShapes()...)
		if *prop == "" || *prop == "C04" {
			if *tier == "thorough" {
				all = append(all, joinShapes(1, combos(4, 4), false, "J1_")...)
				all = append(all, joinShapes(2, combos(6, 3), false, "J2_")...)
			} else {
				all = append(all, joinShapes(1, combos(4, 3), false, "J1_")...)
				all = append(all, joinShapes(2, uniform(3, 4), false, "J2_")...)
			}
			all = append(all, joinShapes(3, uniform(4, 4), false, "J3_")...)
			all = append(all, joinShapes(1, combos(4, 3), true, "J1e_")...)
			all = append(all, joinShapes(2, uniform(3, 4), true, "J2e_")...)
			all = append(all, joinShapes(3, uniform(4, 3), true, "J3e_")...)
		}
	}

	gens := make([]*gen, *shards)
	for i := range gens {
		gens[i] = &gen{tier: *tier, prop: *prop}
		gens[i].pf("// Code generated by e2/shapes/gen; DO NOT EDIT.\n\npackage shard%02d\n\nimport (\n\t\"reflect\"\n\t\"unsafe\"\n\n\t\"github.com/fogfish/golem/hseq\"\n\t\"github.com/fogfish/golem/optics\"\n\trt %q\n)\n\nvar _ = reflect.TypeOf\nvar _ unsafe.Pointer\nvar _ = hseq.New[int]\nvar _ optics.Lens[int, int]\n\n", i, *rtPath)
	}
	n := 0
	for _, sh := range all {
		// the request tables of C02 do not depend on the layout the way C01's byte checks do: in the quick
		// tier every fourth 3-field flat shape gets them (all of them in thorough)
		if *prop == "C02" && *tier == "quick" && sh.family == "flat" && len(sh.root.fields) == 3 && n%4 != 0 {
			n++
			continue
		}
		// (thorough) the request tables for all 4 096 four-field shapes make a binary of more than 2 GB, which the
		// linker cannot produce; every eighth one is kept
		if *prop == "C02" && sh.family == "flat" && len(sh.root.fields) == 4 && n%8 != 0 {
			n++
			continue
		}
		gens[n%*shards].emit(sh)
		n++
	}
	for i, g := range gens {
		dir := filepath.Join(*out, fmt.Sprintf("shard%02d", i))
		os.MkdirAll(dir, 0o755)
		if err := os.WriteFile(filepath.Join(dir, "shapes_gen.go"), []byte(g.b.String()), 0o644); err != nil {
			fmt.Fprintln(os.Stderr, err)
			os.Exit(2)
		}
	}
	var imp strings.Builder
	imp.WriteString("// Code generated by e2/shapes/gen; DO NOT EDIT.\n\npackage main\n\nimport (\n")
	for i := range gens {
		fmt.Fprintf(&imp, "\t_ \"%s/shard%02d\"\n", *mod, i)
	}
	imp.WriteString(")\n")
	os.MkdirAll(filepath.Join(*out, "verifdrv"), 0o755)
	os.WriteFile(filepath.Join(*out, "verifdrv", "shards_gen.go"), []byte(imp.String()), 0o644)
	fmt.Printf("shapes=%d shards=%d\n", len(all), *shards)
}
