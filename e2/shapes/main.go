// shapes driver: C01-C03 over every generated struct shape. The shard packages
// (generated at check time) register their shapes in verifshapes.All.
package main

import (
	"fmt"
	"strings"
	"time"

	rt "github.com/fogfish/golem/verifshapes"
	"verif/drv"
)

func prop(id, level, rule string, assumptions []string) drv.Property {
	return drv.Property{
		ID: id, Level: level, Rule: rule, Assumptions: assumptions,
		PanicIsViolation: true, CrashIsViolation: true,
		Cases: func(string) (int, func(int) string) {
			return len(rt.All), func(i int) string { return rt.All[i].Name }
		},
		Run: func(tier string, i int, _ time.Time) drv.Result {
			sh := &rt.All[i]
			r := drv.Result{Case: sh.Name, Exhaustive: true}
			c := &rt.Ctx{Prop: id, Tier: tier, Shape: sh, R: &r}
			sh.Run(c)
			if len(r.Viols) == 0 {
				// a second pass in the same process: derivations that depend on what was derived before
				// (memoised offsets or checks) show up when the order of requests differs from the first pass
				sh.Run(c)
			}
			if nontrivial(sh) {
				r.Nontrivial = 1
			}
			src := sh.Source
			if len(src) > 600 {
				src = src[:600] + "..."
			}
			r.Sample = map[string]any{"shape": sh.Name, "family": sh.Family, "source": src, "evaluations": r.Evaluations}
			r.Counters = map[string]int{"shapes_" + sh.Family: 1}
			return r
		},
		CaseBudget: func(string) time.Duration { return 5 * time.Minute },
	}
}

// nontrivial: more than one field (so that some focus is at a non-zero offset or next to padding).
func nontrivial(sh *rt.Shape) bool {
	return strings.Count(sh.Source, "\n\t") >= 2
}

var assumptions = []string{
	"ground truth is the compiler's own field selector and plain assignment (differential, byte for byte, including guard bytes around the struct and padding)",
	"amd64 layout rules; layouts beyond the field-count / depth bounds and field types outside the 8 size/alignment classes are not covered",
	"value domains have 3 values per type (all ordered pairs)",
}

func main() {
	drv.Main(
		prop("C01", "exploration", "one case = one generated struct shape: every flat struct of 1..3 (4 in thorough) fields over 8 size/alignment classes (struct{}, bool/int8/uint8, int16/uint16, [3]byte, int32/float32, int64/*int/float64, string/any, []byte; each field its own named type; names exported / unexported / hseq-tagged / tagged with options), every value-embedding template of depth 1..3 with optional fields of three classes before and after the embedded struct at each level, embedded non-struct named types, duplicate names across depths; for every focusable field: Lens and Reflector derived by type and by name (ForProduct1/ForSpectrum1) and positionally through ForProductN/ForSpectrumN (identity order for every shape, every order for a stride), each checked on all 9 ordered (old,new) value pairs: the struct sits between 256-byte guards with sentinel-filled padding, a twin gets the plain assignment, and both memory blocks must be byte-identical; Get == selector read; returned pointer == struct pointer; GetPut, PutGet, PutPut asserted directly; non-trivial = shapes with at least two fields", assumptions),
		prop("C02", "exploration", "the shapes of C01 (quick: every fourth of the 512 three-field flat shapes, all others; thorough: all up to three fields and every eighth four-field shape) plus pointer-embedded structs (depth 1-2, pointer at each level): every (name, requested type) request with the requested type ranging over all other field types of the shape, a distinct named type with the same underlying type, the bare underlying type and three foreign types (must panic); types no field has; unknown and empty names; too few names for N=2..9 (also passed as a sub-slice with spare capacity); container type parameters *S, **S, []S, [1]S, map[string]S, int (must panic); Reflector Gett/Putt with S by value, *Other, **S, nil, typed nil, uintptr, unsafe.Pointer (must panic, memory byte-identical afterwards); a focus behind an embedded pointer may be refused or must really read/write the pointee and nothing in the outer struct", assumptions),
		prop("C03", "exploration", "the shapes of C01 and C02 (value and pointer embedding, duplicate names/types across depths, tags): hseq.New[T]() must equal the listing computed by the generator from its own description (names, keys, declared types, PureType, Anonymous, depth-first order, consecutive IDs) and RootOffs+Offset must equal the real offset (pointer difference through ordinary selectors) for every entry not behind a pointer; ForName / ForNameMaybe for every key and for absent keys; ForType / New1 for every field type (first match) and for absent types (panic); New[T](names...) for all permutations of up to 3 keys; NewN with the N distinct field types in both orders; FMap and FMap1..9 positional", assumptions),
		prop("C04", "exploration", "Join: generated nested named-field structs of nesting 1..3 with optional fields of three classes before/after at each level, the focus a plain field of the innermost struct or promoted from a struct embedded by value in it, lenses derived by name and by type, left- and right-nested association, checked with the C01 byte oracle on all 9 value pairs; ShapeN: ForShape2/3 on every generated flat/embedded shape with 2-3 fields (by type and by name) and ForShape2..9 on a homogeneous 9-field struct with the names chosen at run time (all N-permutations of 9 names for N<=4, N<=7 in thorough; identity/reverse/rotations above), differential against component-wise assignment; BiMapS/B/I/F, BiMap with inverse functions (laws on the converted value), Getter never writes, Setter writes the converted value; map lens over all maps with keys in {a,b,c}; Iso/Morphism over two differently laid-out structs with three common foci: all lists over {nil, iX, iY, iZ, Morphism(iX,iY), Morphism(nil,iZ)} of length <=4 (5): Forward copies exactly the covered foci, source untouched, Forward then Inverse restores the covered foci of another source, the argument slice is not modified and can be reused", assumptions),
	)
	_ = fmt.Sprint
}
