// C15 driver: every expression tree over the trait/pair combinators (mixed
// with trait/seq through ToSeq / FromSeq) up to a depth bound, driven as a
// state machine against its list-of-pairs reference.
package main

import (
	"context"
	"errors"
	"fmt"
	"io"
	"io/fs"
	"time"

	"github.com/fogfish/golem/trait/pair"
	"github.com/fogfish/golem/trait/seq"
	"verif/drv"
)

type P = pair.Seq[int, int]
type Q = seq.Seq[int]

type kv struct{ K, V int }

// ---- alphabet: functions are asymmetric in (key, value), keys are 100+i, values i ----

type pred struct {
	name string
	f    func(k, v int) bool
}
type mapper struct {
	name string
	f    func(k, v int) int
}

var preds = []pred{
	{"k<102", func(k, v int) bool { return k < 102 }},
	{"v<3", func(k, v int) bool { return v < 3 }},
	{"k-v==100", func(k, v int) bool { return k-v == 100 }},
	{"v odd", func(k, v int) bool { return v%2 != 0 }},
	{"k even", func(k, v int) bool { return k%2 == 0 }},
	{"true", func(k, v int) bool { return true }},
	{"false", func(k, v int) bool { return false }},
}
var mappers = []mapper{
	{"v+1", func(k, v int) int { return v + 1 }},
	{"k", func(k, v int) int { return k }},
	{"2v-k", func(k, v int) int { return 2*v - k }},
}

func plusAll(ps ...P) P {
	var out P
	for _, p := range ps {
		out = pair.Plus(out, p)
	}
	return out
}

type joiner struct {
	name string
	f    func(k, v int) (P, []kv)
}

var joiners = []joiner{
	{"nil", func(k, v int) (P, []kv) { return nil, nil }},
	{"From(k,v)", func(k, v int) (P, []kv) { return pair.From(k, v), []kv{{k, v}} }},
	{"From(k+10,v)[+From(k+20,v+1) unless v is 1]", func(k, v int) (P, []kv) { // one-element and two-element inner sequences in one traversal
		if v == 1 {
			return pair.From(k+10, v), []kv{{k + 10, v}}
		}
		return plusAll(pair.From(k+10, v), pair.From(k+20, v+1)), []kv{{k + 10, v}, {k + 20, v + 1}}
	}},
	{"nil-if-v-odd", func(k, v int) (P, []kv) {
		if v%2 != 0 {
			return nil, nil
		}
		return pair.From(v, k), []kv{{v, k}}
	}},
	{"tw-if-k-odd", func(k, v int) (P, []kv) {
		if k%2 == 0 {
			return nil, nil
		}
		s := plusAll(pair.From(1, k), pair.From(2, k), pair.From(9, k), pair.From(1, k+1), pair.From(2, k+1))
		return pair.TakeWhile(s, func(kk, vv int) bool { return kk < 3 }), []kv{{1, k}, {2, k}}
	}},
}

type toSeqFn struct {
	name string
	f    func(k, v int) (Q, []int)
}

var toSeqs = []toSeqFn{
	{"[k,v]", func(k, v int) (Q, []int) { return seq.FromSlice([]int{k, v}), []int{k, v} }},
	{"From(k-v)", func(k, v int) (Q, []int) { return seq.From(k - v), []int{k - v} }},
	{"nil-if-v-even", func(k, v int) (Q, []int) {
		if v%2 == 0 {
			return nil, nil
		}
		return seq.From(v), []int{v}
	}},
}

type fromSeqFn struct {
	name string
	f    func(x int) (P, []kv)
}

var fromSeqs = []fromSeqFn{
	{"From(100+x,x)", func(x int) (P, []kv) { return pair.From(100+x, x), []kv{{100 + x, x}} }},
	{"nil-if-odd", func(x int) (P, []kv) {
		if x%2 != 0 {
			return nil, nil
		}
		return pair.From(x, 100+x), []kv{{x, 100 + x}}
	}},
	{"one-or-two", func(x int) (P, []kv) {
		if x == 1 {
			return pair.From(100+x, x), []kv{{100 + x, x}}
		}
		return plusAll(pair.From(100+x, x), pair.From(200+x, -x)), []kv{{100 + x, x}, {200 + x, -x}}
	}},
}

var qLeaves = [][]int{nil, {1}, {2}, {1, 2}, {2, 1}, {3, 1, 2}}

// ---- trees ----

type node struct {
	sort string // P or Q
	kind string
	i    int
	a, b *node
}

func (n *node) String() string {
	switch n.kind {
	case "from":
		return fmt.Sprintf("From(%d,%d)", 100+n.i, n.i)
	case "pnil":
		return "nil"
	case "slice":
		return fmt.Sprintf("seq.FromSlice(%v)", qLeaves[n.i])
	case "tw":
		return fmt.Sprintf("TakeWhile(%v, %s)", n.a, preds[n.i].name)
	case "dw":
		return fmt.Sprintf("DropWhile(%v, %s)", n.a, preds[n.i].name)
	case "filter":
		return fmt.Sprintf("Filter(%v, %s)", n.a, preds[n.i].name)
	case "map":
		return fmt.Sprintf("Map(%v, %s)", n.a, mappers[n.i].name)
	case "plus":
		return fmt.Sprintf("Plus(%v, %v)", n.a, n.b)
	case "join":
		return fmt.Sprintf("Join(%v, %s)", n.a, joiners[n.i].name)
	case "toseq":
		return fmt.Sprintf("ToSeq(%v, %s)", n.a, toSeqs[n.i].name)
	case "fromseq":
		return fmt.Sprintf("FromSeq(%v, %s)", n.a, fromSeqs[n.i].name)
	case "qfilter":
		return fmt.Sprintf("seq.Filter(%v, odd)", n.a)
	case "qmap":
		return fmt.Sprintf("seq.Map(%v, +1)", n.a)
	}
	return "?"
}

func (n *node) buildP() (P, []kv) {
	switch n.kind {
	case "from":
		return pair.From(100+n.i, n.i), []kv{{100 + n.i, n.i}}
	case "pnil":
		return nil, nil
	case "fromseq":
		q, ref := n.a.buildQ()
		var out []kv
		for _, x := range ref {
			_, r := fromSeqs[n.i].f(x)
			out = append(out, r...)
		}
		fn := fromSeqs[n.i]
		return pair.FromSeq(q, func(x int) P { p, _ := fn.f(x); return p }), out
	}
	s, ref := n.a.buildP()
	switch n.kind {
	case "tw":
		var out []kv
		for _, x := range ref {
			if !preds[n.i].f(x.K, x.V) {
				break
			}
			out = append(out, x)
		}
		return pair.TakeWhile(s, preds[n.i].f), out
	case "dw":
		i := 0
		for i < len(ref) && preds[n.i].f(ref[i].K, ref[i].V) {
			i++
		}
		return pair.DropWhile(s, preds[n.i].f), ref[i:]
	case "filter":
		var out []kv
		for _, x := range ref {
			if preds[n.i].f(x.K, x.V) {
				out = append(out, x)
			}
		}
		return pair.Filter(s, preds[n.i].f), out
	case "map":
		var out []kv
		for _, x := range ref {
			out = append(out, kv{x.K, mappers[n.i].f(x.K, x.V)}) // Map changes values, never keys
		}
		return pair.Map(s, mappers[n.i].f), out
	case "plus":
		s2, ref2 := n.b.buildP()
		return pair.Plus(s, s2), append(append([]kv{}, ref...), ref2...)
	case "join":
		var out []kv
		for _, x := range ref {
			_, r := joiners[n.i].f(x.K, x.V)
			out = append(out, r...)
		}
		j := joiners[n.i]
		return pair.Join(s, func(k, v int) P { p, _ := j.f(k, v); return p }), out
	}
	panic("bad P node " + n.kind)
}

func (n *node) buildQ() (Q, []int) {
	switch n.kind {
	case "slice":
		xs := qLeaves[n.i]
		return seq.FromSlice(append([]int{}, xs...)), append([]int{}, xs...)
	case "toseq":
		p, ref := n.a.buildP()
		var out []int
		for _, x := range ref {
			_, r := toSeqs[n.i].f(x.K, x.V)
			out = append(out, r...)
		}
		fn := toSeqs[n.i]
		return pair.ToSeq(p, func(k, v int) Q { q, _ := fn.f(k, v); return q }), out
	case "qfilter":
		q, ref := n.a.buildQ()
		var out []int
		for _, x := range ref {
			if x%2 != 0 {
				out = append(out, x)
			}
		}
		return seq.Filter(q, func(x int) bool { return x%2 != 0 }), out
	case "qmap":
		q, ref := n.a.buildQ()
		var out []int
		for _, x := range ref {
			out = append(out, x+1)
		}
		return seq.Map(q, func(x int) int { return x + 1 }), out
	}
	panic("bad Q node " + n.kind)
}

type levels struct{ p, q []*node }

func level(d int) levels {
	var l levels
	for i := 1; i <= 3; i++ {
		l.p = append(l.p, &node{sort: "P", kind: "from", i: i})
	}
	l.p = append(l.p, &node{sort: "P", kind: "pnil"})
	for i := range qLeaves {
		l.q = append(l.q, &node{sort: "Q", kind: "slice", i: i})
	}
	if d == 1 {
		return l
	}
	sub := level(d - 1)
	for _, k := range []string{"tw", "dw", "filter"} {
		for i := range preds {
			for _, a := range sub.p {
				l.p = append(l.p, &node{sort: "P", kind: k, i: i, a: a})
			}
		}
	}
	for i := range mappers {
		for _, a := range sub.p {
			l.p = append(l.p, &node{sort: "P", kind: "map", i: i, a: a})
		}
	}
	for i := range joiners {
		for _, a := range sub.p {
			l.p = append(l.p, &node{sort: "P", kind: "join", i: i, a: a})
		}
	}
	for i := range fromSeqs {
		for _, a := range sub.q {
			l.p = append(l.p, &node{sort: "P", kind: "fromseq", i: i, a: a})
		}
	}
	for _, a := range sub.p {
		for _, b := range sub.p {
			l.p = append(l.p, &node{sort: "P", kind: "plus", a: a, b: b})
		}
	}
	for i := range toSeqs {
		for _, a := range sub.p {
			l.q = append(l.q, &node{sort: "Q", kind: "toseq", i: i, a: a})
		}
	}
	for _, a := range sub.q {
		l.q = append(l.q, &node{sort: "Q", kind: "qfilter", a: a}, &node{sort: "Q", kind: "qmap", a: a})
	}
	return l
}

// ---- oracle ----

var errStop = errors.New("stop")

// stopErrs: the errors a callback may return are arbitrary values, including ones that other code treats as "not
// really an error"; ForEach hands back the very value it was given. The position decides which one is used.
var stopErrs = []error{errStop, io.EOF, fmt.Errorf("reading: %w", io.EOF), context.Canceled, io.ErrUnexpectedEOF, errors.New(""), fs.SkipDir, fmt.Errorf("walk: %w", fs.SkipDir), fs.SkipAll}

type checker struct{ r *drv.Result }

func (c *checker) viol(sig string, n *node, f string, a ...any) {
	if len(c.r.Viols) < 3 {
		c.r.Viols = append(c.r.Viols, drv.Viol{Sig: "C15/" + sig, Msg: n.String() + ": " + fmt.Sprintf(f, a...), Replay: map[string]any{"expr": n.String()}})
	}
}

// interfaceValues: the value type of a pair sequence is an interface type and some values are nil interface values
// (an error that is nil for "fine", an optional any). A nil value is a value like any other: it is delivered with its key.
func interfaceValues(c *checker) {
	type PA = pair.Seq[int, any]
	src := func(n int) pair.Seq[int, int] {
		var s pair.Seq[int, int]
		for i := n; i >= 1; i-- {
			s = pair.Plus(pair.From(100+i, i), s)
		}
		return s
	}
	toAny := func(k, v int) any {
		if v%2 == 0 {
			return nil
		}
		return v * 10
	}
	drain := func(s PA) (out []string) {
		for has := s != nil; has; has = s.Next() {
			out = append(out, fmt.Sprintf("%d:%v", s.Key(), s.Value()))
		}
		return
	}
	report := func(name string, got, want []string) {
		c.r.Evaluations++
		if fmt.Sprint(got) != fmt.Sprint(want) {
			c.r.Viols = append(c.r.Viols, drv.Viol{Sig: "C15/interface-values", Msg: fmt.Sprintf("%s: drained %v, want %v", name, got, want), Replay: map[string]any{"expr": name}})
		}
	}
	for n := 1; n <= 4; n++ {
		var want []string
		for i := 1; i <= n; i++ {
			want = append(want, fmt.Sprintf("%d:%v", 100+i, toAny(100+i, i)))
		}
		m := func() PA { return pair.Map(src(n), toAny) }
		report(fmt.Sprintf("Map(%d pairs, v -> nil if even)", n), drain(m()), want)
		report(fmt.Sprintf("Filter(Map(%d pairs, ...), true)", n), drain(pair.Filter(m(), func(int, any) bool { return true })), want)
		report(fmt.Sprintf("TakeWhile(Map(%d pairs, ...), true)", n), drain(pair.TakeWhile(m(), func(int, any) bool { return true })), want)
		report(fmt.Sprintf("Plus(Map(%d pairs, ...), nil)", n), drain(pair.Plus(m(), nil)), want)
		report(fmt.Sprintf("Join(%d pairs, (k,v) -> From(k, nil-if-even))", n), drain(pair.Join(src(n), func(k, v int) PA { return pair.From(k, toAny(k, v)) })), want)
		// errors as values: nil means fine
		var wantE []string
		for i := 1; i <= n; i++ {
			if i%2 == 1 {
				wantE = append(wantE, fmt.Sprintf("%d:bad %d", 100+i, i))
			} else {
				wantE = append(wantE, fmt.Sprintf("%d:<nil>", 100+i))
			}
		}
		e := pair.Map(src(n), func(k, v int) error {
			if v%2 == 1 {
				return fmt.Errorf("bad %d", v)
			}
			return nil
		})
		var gotE []string
		for has := e != nil; has; has = e.Next() {
			gotE = append(gotE, fmt.Sprintf("%d:%v", e.Key(), e.Value()))
		}
		report(fmt.Sprintf("Map(%d pairs, v -> error, nil if even)", n), gotE, wantE)
		// plain sequences of any
		var wantQ []string
		for i := 1; i <= n; i++ {
			wantQ = append(wantQ, fmt.Sprint(toAny(0, i)))
		}
		q := pair.ToSeq(src(n), func(k, v int) seq.Seq[any] { return seq.From(toAny(k, v)) })
		var gotQ []string
		for has := q != nil; has; has = q.Next() {
			gotQ = append(gotQ, fmt.Sprint(q.Value()))
		}
		report(fmt.Sprintf("ToSeq(%d pairs, (k,v) -> From(nil-if-even))", n), gotQ, wantQ)
		sm := seq.Map(seq.FromSlice([]int{1, 2, 3, 4}[:n]), func(v int) any { return toAny(0, v) })
		var gotM []string
		for has := sm != nil; has; has = sm.Next() {
			gotM = append(gotM, fmt.Sprint(sm.Value()))
		}
		report(fmt.Sprintf("seq.Map(%d elements, v -> nil if even)", n), gotM, wantQ)
	}
}

func (c *checker) evalP(n *node) {
	c.r.Evaluations++
	drv.Tick()
	s, ref := n.buildP()
	c.r.States += len(ref) + 1
	if len(ref) >= 2 {
		c.r.Nontrivial++
	}
	if (s == nil) != (len(ref) == 0) {
		c.viol("empty", n, "iterator is nil = %v, but the list is %v", s == nil, ref)
		return
	}
	for i := range ref {
		if k, v := s.Key(), s.Value(); k != ref[i].K || v != ref[i].V {
			c.viol("pair", n, "position %d: (Key, Value) = (%d, %d), the list of pairs is %v", i, k, v, ref)
			return
		}
		c.r.Transitions++
		if has := s.Next(); has != (i+1 < len(ref)) {
			c.viol("next", n, "position %d: Next() = %v, the list of pairs is %v", i, has, ref)
			return
		}
	}
	for p := 0; p <= len(ref); p++ {
		s2, _ := n.buildP()
		var seen []kv
		err := pair.ForEach(s2, func(k, v int) error {
			seen = append(seen, kv{k, v})
			if len(seen) == p+1 {
				return stopErrs[p%len(stopErrs)]
			}
			return nil
		})
		want, wantErr := ref, error(nil)
		if p < len(ref) {
			want, wantErr = ref[:p+1], stopErrs[p%len(stopErrs)]
		}
		c.r.Transitions += len(seen)
		if fmt.Sprint(seen) != fmt.Sprint(want) || err != wantErr {
			c.viol("foreach", n, "ForEach failing at visit %d: visited %v and returned %v, want %v and %v", p+1, seen, err, want, wantErr)
			return
		}
	}
}

func (c *checker) evalQ(n *node) {
	c.r.Evaluations++
	drv.Tick()
	s, ref := n.buildQ()
	c.r.States += len(ref) + 1
	if len(ref) >= 2 {
		c.r.Nontrivial++
	}
	if (s == nil) != (len(ref) == 0) {
		c.viol("empty", n, "iterator is nil = %v, but the list is %v", s == nil, ref)
		return
	}
	for i := range ref {
		if v := s.Value(); v != ref[i] {
			c.viol("value", n, "position %d: Value() = %d, the list is %v", i, v, ref)
			return
		}
		c.r.Transitions++
		if has := s.Next(); has != (i+1 < len(ref)) {
			c.viol("next", n, "position %d: Next() = %v, the list is %v", i, has, ref)
			return
		}
	}
}

type caseDef struct {
	name string
	run  func(c *checker, deadline time.Time)
}

func mkCases(tier string) []caseDef {
	l3 := level(3)
	const parts = 48
	var cs []caseDef
	for p := 0; p < parts; p++ {
		p := p
		cs = append(cs, caseDef{fmt.Sprintf("pair trees of depth <= 3, #i with i mod %d = %d", parts, p), func(c *checker, _ time.Time) {
			for i := p; i < len(l3.p); i += parts {
				c.evalP(l3.p[i])
			}
		}})
	}
	cs = append(cs, caseDef{"plain seq trees of depth <= 3 (ToSeq over pair trees of depth <= 2)", func(c *checker, _ time.Time) {
		for _, n := range l3.q {
			c.evalQ(n)
		}
	}})
	cs = append(cs, caseDef{"values of an interface type, nil among them (Map to any / error, Filter, Plus, Join, ToSeq)", func(c *checker, _ time.Time) { interfaceValues(c) }})
	deep := tier == "thorough"
	{
		// depth 4: every unary / join / FromSeq / ToSeq root over depth-3 operands, Plus with one operand of depth <= 2
		l2 := level(2)
		for p := 0; p < parts; p++ {
			p := p
			cs = append(cs, caseDef{fmt.Sprintf("depth 4, operand #i of depth <= 3 with i mod %d = %d", parts, p), func(c *checker, deadline time.Time) {
				for i := p; i < len(l3.p); i += parts {
					a := l3.p[i]
					// roots applies every non-Plus root to t; at depth 4 in the thorough tier each of
					// these trees becomes the operand of every non-Plus root once more (depth 5)
					var roots func(t *node, more bool)
					roots = func(t *node, more bool) {
						each := func(n *node) {
							if n.sort == "P" {
								c.evalP(n)
								if more {
									roots(n, false)
								}
							} else {
								c.evalQ(n)
							}
						}
						for _, k := range []string{"tw", "dw", "filter"} {
							for j := range preds {
								each(&node{sort: "P", kind: k, i: j, a: t})
							}
						}
						for j := range mappers {
							each(&node{sort: "P", kind: "map", i: j, a: t})
						}
						for j := range joiners {
							each(&node{sort: "P", kind: "join", i: j, a: t})
						}
						for j := range toSeqs {
							each(&node{sort: "Q", kind: "toseq", i: j, a: t})
						}
					}
					roots(a, deep)
					for _, b := range l2.p {
						for _, n := range []*node{{sort: "P", kind: "plus", a: a, b: b}, {sort: "P", kind: "plus", a: b, b: a}} {
							c.evalP(n)
							if deep {
								roots(n, false)
							}
						}
					}
					if len(c.r.Viols) > 0 {
						return
					}
					if time.Now().After(deadline) {
						c.r.Exhaustive = false
						c.r.Note = "time budget reached"
						return
					}
				}
			}})
		}
	}
	return cs
}

func main() {
	cache := map[string][]caseDef{}
	get := func(tier string) []caseDef {
		if cache[tier] == nil {
			cache[tier] = mkCases(tier)
		}
		return cache[tier]
	}
	drv.Main(drv.Property{
		ID: "C15", Level: "model_checking", PanicIsViolation: true, MemLimitGB: 12,
		Rule:        "two-sorted grammar: pair trees over From(100+i, i) (i=1..3), nil, TakeWhile/DropWhile/Filter x 7 predicates on (key,value), Map x 3 functions of (key,value), Plus, Join x 5 functions (nil, From, a one-element From or a two-element Plus depending on the value, nil-if-value-odd, predicate-terminated TakeWhile / nil), FromSeq x 3 functions over plain seq trees; plain seq trees over FromSlice leaves, ToSeq x 3 functions over pair trees, seq.Filter, seq.Map. Every tree of depth <= 3 of both sorts, and depth 4 with every non-Plus root over all depth-3 operands and Plus with one operand of depth <= 2 (thorough: each of those depth-4 trees again under every non-Plus root, i.e. depth 5). Keys differ from values (100+i vs i) and every function is asymmetric in its arguments, so a swapped or mismatched key/value shows. Each tree is rebuilt for every evaluation and driven as a state machine: at position i (Key(),Value()) == ref[i], Next() == (i+1<len); ForEach with an error injected at every visit position. states = (tree, position) pairs, transitions = Next / visit steps; non-trivial = lists with at least 2 pairs",
		Assumptions: []string{"iterators are not shared between trees; Next() is not called again after it returned false", "functions and values outside the alphabet are not covered"},
		Cases: func(tier string) (int, func(int) string) {
			cs := get(tier)
			return len(cs), func(i int) string { return cs[i].name }
		},
		Run: func(tier string, i int, deadline time.Time) drv.Result {
			cs := get(tier)
			r := drv.Result{Case: cs[i].name, Exhaustive: true}
			c := &checker{r: &r}
			cs[i].run(c, deadline)
			l := level(3)
			ex := l.p[(i*7919+13)%len(l.p)]
			_, ref := ex.buildP()
			r.Sample = map[string]any{"case": cs[i].name, "trees": r.Evaluations, "example_tree": fmt.Sprintf("%v = %v", ex, ref)}
			return r
		},
		Extra: func(_ string, cov map[string]any) {
			cov["traces_validated_against_impl"] = cov["evaluations"]
			cov["explanation"] = "no separate model: every tree is evaluated on the real combinators; the reference is the list-function image"
		},
	})
}
