module e2c15

go 1.24
