// C19 driver: the linked-list and the slice sequence traits against one
// reference ([]int), over every script of New / Cons / Tail up to a depth
// bound; every value ever produced is kept and re-observed after all its
// descendants and later siblings have been built (persistence).
package main

import (
	"fmt"
	"time"

	"github.com/fogfish/golem/pure/monoid"
	"github.com/fogfish/golem/seq"
	"github.com/fogfish/golem/seq/list"
	"github.com/fogfish/golem/seq/slice"
	"verif/drv"
)

type walker[F any] struct {
	name   string
	tr     seq.Seq[F, int]
	r      *drv.Result
	states map[string]bool
	depth  int
}

var digits = monoid.FromOp(7, func(a, b int) int { return (a*10 + b) % 1000000007 })

func refFold(xs []int) int {
	acc := 7
	for _, x := range xs {
		acc = (acc*10 + x) % 1000000007
	}
	return acc
}

func (w *walker[F]) viol(sig string, script []string, f string, a ...any) {
	if len(w.r.Viols) < 4 {
		w.r.Viols = append(w.r.Viols, drv.Viol{Sig: "C19/" + w.name + "/" + sig,
			Msg:    fmt.Sprintf("%s implementation, script %v: ", w.name, script) + fmt.Sprintf(f, a...),
			Replay: map[string]any{"impl": w.name, "script": script}})
	}
}

// observe compares every observer of s with the reference list.
func (w *walker[F]) observe(s F, ref []int, script []string, when string) bool {
	w.r.Evaluations++
	drv.Tick()
	if n := w.tr.Length(s); n != len(ref) {
		w.viol("length", script, "%s: Length = %d, want %d", when, n, len(ref))
		return false
	}
	if e := w.tr.IsEmpty(s); e != (len(ref) == 0) {
		w.viol("isempty", script, "%s: IsEmpty = %v for a sequence of length %d", when, e, len(ref))
		return false
	}
	var got []int
	cur := s
	for i := 0; i < len(ref); i++ {
		if w.tr.IsEmpty(cur) {
			w.viol("elements", script, "%s: ran empty after %v, want elements %v", when, got, ref)
			return false
		}
		got = append(got, w.tr.Head(cur))
		cur = w.tr.Tail(cur)
	}
	if fmt.Sprint(got) != fmt.Sprint(ref) || !w.tr.IsEmpty(cur) {
		w.viol("elements", script, "%s: elements %v (then empty=%v), want %v", when, got, w.tr.IsEmpty(cur), ref)
		return false
	}
	if f := (seq.Foldable[F, int]{Seq: w.tr}).Fold(digits, s); f != refFold(ref) {
		w.viol("fold", script, "%s: Fold with (empty 7, a*10+b) = %d, the left fold from the empty element gives %d", when, f, refFold(ref))
		return false
	}
	return true
}

type child[F any] struct {
	v      F
	ref    []int
	script []string
}

func (w *walker[F]) explore(s F, ref []int, script []string, d int) bool {
	w.states[fmt.Sprint(ref)] = true
	if d == w.depth {
		return true
	}
	var kids []child[F]
	for x := 1; x <= 3; x++ {
		w.r.Transitions++
		kids = append(kids, child[F]{w.tr.Cons(x, s), append([]int{x}, ref...), append(append([]string{}, script...), fmt.Sprintf("Cons(%d)", x))})
	}
	if len(ref) > 0 {
		w.r.Transitions++
		kids = append(kids, child[F]{w.tr.Tail(s), ref[1:], append(append([]string{}, script...), "Tail")})
	}
	for _, k := range kids {
		if !w.observe(k.v, k.ref, k.script, "right after the operation") {
			return false
		}
	}
	if !w.observe(s, ref, script, "after Cons/Tail were applied to it (the argument must not change)") {
		return false
	}
	for _, k := range kids {
		if !w.explore(k.v, k.ref, k.script, d+1) {
			return false
		}
	}
	for _, k := range kids {
		if !w.observe(k.v, k.ref, k.script, "re-observed after its siblings and descendants were built") {
			return false
		}
	}
	return w.observe(s, ref, script, "re-observed after all descendants were built")
}

// longNews: constructors with many arguments (allocation in chunks), explored to a small depth only
func longNews() [][]int {
	var out [][]int
	for _, n := range []int{8, 15, 16, 17, 31, 32, 33, 64, 65, 100, 1025, 3000, 4097} {
		xs := make([]int, n)
		for i := range xs {
			xs[i] = 1 + (i*7+i/3)%9
		}
		out = append(out, xs)
	}
	return out
}

// brief prints a long argument list by its length and its first elements.
func brief(xs []int) string {
	if len(xs) <= 20 {
		return fmt.Sprint(xs)
	}
	return fmt.Sprintf("%d elements %v...", len(xs), xs[:6])
}

func news() [][]int {
	out := [][]int{{}}
	for l := 1; l <= 3; l++ {
		var gen func(p []int)
		gen = func(p []int) {
			if len(p) == l {
				out = append(out, append([]int{}, p...))
				return
			}
			for x := 1; x <= 3; x++ {
				gen(append(p, x))
			}
		}
		gen(nil)
	}
	return out
}

func runImpl[F any](name string, tr seq.Seq[F, int], xs []int, depth int) drv.Result {
	r := drv.Result{Case: fmt.Sprintf("%s New(%s) depth %d", name, brief(xs), depth), Exhaustive: true}
	w := &walker[F]{name: name, tr: tr, r: &r, states: map[string]bool{}, depth: depth}
	arg := append([]int{}, xs...)
	s := tr.New(arg...)
	script := []string{fmt.Sprintf("New(%s)", brief(xs))}
	if w.observe(s, xs, script, "right after New") {
		w.explore(s, xs, script, 0)
	}
	if len(xs) >= 2 && len(r.Viols) == 0 {
		// New called twice with one argument slice: the arguments are read, not rearranged - the caller's slice and both
		// sequences are what they were (the first sequence is observed only after the second was built)
		again := append([]int{}, xs...)
		sc := []string{fmt.Sprintf("a := New(args...) with args = %s", brief(xs)), "b := New(args...)"}
		a1 := tr.New(again...)
		if fmt.Sprint(again) != fmt.Sprint(xs) {
			w.viol("new-args-modified", sc[:1], "New rearranged the caller's argument slice into %s", brief(again))
		}
		a2 := tr.New(again...)
		if len(r.Viols) == 0 && w.observe(a2, xs, sc, "b") && w.observe(a1, xs, sc, "a, after b was built") && fmt.Sprint(again) != fmt.Sprint(xs) {
			w.viol("new-args-modified", sc, "the caller's argument slice now holds %s", brief(again))
		}
	}
	if len(xs) <= 3 && len(r.Viols) == 0 {
		// the same start from an argument slice with 256 spare slots (an empty one is then non-nil and has capacity):
		// what a caller gets from make([]T, 0, n) followed by a few appends
		roomy := append(make([]int, 0, 256), xs...)
		w.depth = min(depth, 4)
		s2 := tr.New(roomy...)
		script2 := []string{fmt.Sprintf("New(%s...) from a slice of capacity 256", brief(xs))}
		if w.observe(s2, xs, script2, "right after New") {
			w.explore(s2, xs, script2, 0)
		}
		w.depth = depth
	}
	if len(xs) > 1000 && len(r.Viols) == 0 {
		// a fold that is slow on one early element: were the elements of a long sequence combined by several goroutines
		// (chunk by chunk) and the partial results merged in completion order, the chunk holding that element would
		// finish last. The verdict is the value, not the time.
		slow := monoid.FromOp(7, func(a, b int) int {
			if b == 999 {
				time.Sleep(30 * time.Millisecond)
				b = 9
			}
			return (a*10 + b) % 1000000007
		})
		ys := append([]int{}, xs...)
		ys[2] = 999
		zs := append([]int{}, ys...)
		zs[2] = 9
		r.Evaluations++
		if f := (seq.Foldable[F, int]{Seq: tr}).Fold(slow, tr.New(ys...)); f != refFold(zs) {
			w.viol("fold", []string{fmt.Sprintf("New(%d elements)", len(ys))}, "Fold over %d elements with a non-commutative operation that is slow on the third element = %d, the left fold gives %d", len(ys), f, refFold(zs))
		}
	}
	r.States = len(w.states)
	if len(xs) >= 1 {
		r.Nontrivial = 1
	}
	r.Sample = map[string]any{"impl": name, "start": script[0], "depth": depth, "alphabet": "Cons(1|2|3), Tail", "distinct_sequences": r.States, "operations": r.Transitions}
	return r
}

func main() {
	short := news()
	starts := append(append([][]int{}, short...), longNews()...)
	depthOf := func(tier string) int {
		if tier == "thorough" {
			return 8
		}
		return 6
	}
	depth := func(tier string, xs []int) int {
		if len(xs) > 1000 {
			return 1
		}
		if len(xs) > 3 {
			return 2
		}
		return depthOf(tier)
	}
	drv.Main(drv.Property{
		ID: "C19", Level: "model_checking", PanicIsViolation: true, MemLimitGB: 4,
		Rule:        "one case = (implementation list|slice, start New(xs) for every xs over {1,2,3} of length <= 3 (from an exact-size argument slice and, to depth 4, from one with 256 spare slots), plus long argument lists of 8..100 elements explored to depth 2 and of 1025, 3000, 4097 elements explored to depth 1, also folded with an operation that is slow on one early element); from it every script of Cons(1|2|3) / Tail of length <= 6 (8 in thorough) is executed on the real trait (a tree of values, no de-duplication, because hidden state such as slice capacity differs between paths); each produced value is observed (Length, IsEmpty, Head/Tail walk, Fold with the non-commutative operation a*10+b from empty 7) right after the operation, the argument is re-observed, and every value is re-observed after all its later siblings and descendants were built; states = distinct element lists reached, transitions = operations executed; both implementations are compared with the same []int reference, hence with each other",
		Assumptions: []string{"element values 1..3 stand for all values (the traits are parametric)", "New(xs...) aliasing its argument slice is outside the statement and not checked"},
		Cases: func(string) (int, func(int) string) {
			return 2 * len(starts), func(i int) string {
				if i < len(starts) {
					return fmt.Sprintf("list New(%v)", starts[i])
				}
				return fmt.Sprintf("slice New(%v)", starts[i-len(starts)])
			}
		},
		Run: func(tier string, i int, _ time.Time) drv.Result {
			if i < len(starts) {
				return runImpl[list.Seq[int]]("list", list.Trait[int]("seq.int"), starts[i], depth(tier, starts[i]))
			}
			return runImpl[slice.Seq[int]]("slice", slice.Trait[int]("seq.int"), starts[i-len(starts)], depth(tier, starts[i-len(starts)]))
		},
		Extra: func(_ string, cov map[string]any) {
			cov["traces_validated_against_impl"] = cov["transitions"]
			cov["explanation"] = "there is no separate model: every transition is an operation executed on the real implementation and compared with the reference list"
		},
	})
}
