module e2c19

go 1.24
