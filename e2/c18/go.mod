module e2c18

go 1.24
