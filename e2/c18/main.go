// C18 driver: explicit-state BFS over all reachable states of the skip list for
// a small universe of keys, values and (enumerated) node heights; every
// transition is executed on the real list (fresh instance, shortest history
// replayed, plus one operation) and compared with a plain map.
package main

import (
	"fmt"
	"sort"
	"strings"
	"time"

	"github.com/fogfish/golem/maplike"
	"github.com/fogfish/golem/maplike/skiplist"
	"github.com/fogfish/golem/pure/ord"
	"verif/drv"
)

// heights is a scripted rand.Source: Int63 values that land in the bucket of the requested height.
type heights struct {
	table []float64
	next  []int
	used  int
}

func (h *heights) Seed(int64)     {}
func (h *heights) Uint64() uint64 { return uint64(h.Int63()) }
func (h *heights) Int63() int64 {
	want := 1
	if len(h.next) > 0 {
		want, h.next = h.next[0], h.next[1:]
	}
	h.used++
	// mkNode counts the leading table entries with p < table[level]: height want <=> table[want] <= p < table[want-1]
	lo, hi := 0.0, h.table[want-1]
	if want < len(h.table) {
		lo = h.table[want]
	}
	return int64((lo + hi) / 2 * (1 << 63))
}

type op struct {
	Kind   string // put get remove
	K      int    // key index
	V      int    // value index (1..), put only
	Height int    // put only
}

func (o op) String() string {
	if o.Kind == "put" {
		return fmt.Sprintf("Put(k%d,v%d,h=%d)", o.K, o.V, o.Height)
	}
	return fmt.Sprintf("%s(k%d)", strings.Title(o.Kind), o.K)
}

type universe[K any] struct {
	name  string
	keys  []K // key of index i
	cmp   ord.Ord[K]
	less  func(a, b K) bool // the same total order, for the reference
	nvals int
	maxH  int
}

type node struct {
	key     string
	fingers []string
}

func parse(s string) ([]node, error) {
	var out []node
	for _, line := range strings.Split(s, "\n") {
		line = strings.TrimSpace(line)
		if !strings.HasPrefix(line, "{") {
			continue
		}
		i := strings.Index(line, "\t| ")
		if i < 0 || !strings.HasSuffix(line, "}") {
			return nil, fmt.Errorf("cannot parse printed node %q", line)
		}
		out = append(out, node{key: line[1:i], fingers: strings.Fields(line[i+3 : len(line)-1])})
	}
	if len(out) == 0 {
		return nil, fmt.Errorf("printed form has no head node: %q", s)
	}
	return out, nil
}

type runner[K any] struct {
	u universe[K]
}

// apply executes the history on a fresh list; it returns the list, the reference and the results of the last op.
func (r runner[K]) exec(hist []op, printAfter ...int) (m maplike.MapLike[K, string], ref map[int]string, got, want string, src *heights) {
	m = skiplist.New[K, string](r.u.cmp)
	_, table := skiplist.VerifTable(m)
	src = &heights{table: table}
	skiplist.VerifSetSource(m, src)
	ref = map[int]string{}
	for i, o := range hist {
		got, want = "", ""
		switch o.Kind {
		case "put":
			src.next = []int{o.Height}
			before := src.used
			m.Put(r.u.keys[o.K], fmt.Sprintf("v%d", o.V))
			_, existed := ref[o.K]
			ref[o.K] = fmt.Sprintf("v%d", o.V)
			_ = before
			_ = existed
		case "get":
			got = m.Get(r.u.keys[o.K])
			want = ref[o.K]
		case "remove":
			got = m.Remove(r.u.keys[o.K])
			want = ref[o.K]
			delete(ref, o.K)
		}
		if len(printAfter) > 0 && (printAfter[0] == i || printAfter[0] < 0) {
			_ = fmt.Sprint(m) // printing is a read: it may be done at any time and changes nothing
		}
	}
	return
}

func stripHeader(printed string) string {
	if i := strings.Index(printed, "\n"); i >= 0 {
		return printed[i+1:] // drop the header with the address
	}
	return printed
}

// check returns "" or a violation message for the state after hist; canon is the canonical state.
func (r runner[K]) check(hist []op) (canon string, msg string) {
	m, ref, got, want, _ := r.exec(hist)
	if got != want {
		return "", fmt.Sprintf("%s returned %q, an ordinary map returns %q", hist[len(hist)-1], got, want)
	}
	printed := fmt.Sprint(m)
	if i := strings.Index(printed, "\n"); i >= 0 {
		printed = printed[i+1:] // drop the header with the address
	}
	nodes, err := parse(printed)
	if err != nil {
		return "", err.Error()
	}
	// live keys in the order in use
	var live []int
	for k := range ref {
		live = append(live, k)
	}
	sort.Slice(live, func(i, j int) bool { return r.u.less(r.u.keys[live[i]], r.u.keys[live[j]]) })
	rank := map[string]int{}
	var wantKeys []string
	for i, k := range live {
		rank[fmt.Sprint(r.u.keys[k])] = i
		wantKeys = append(wantKeys, fmt.Sprint(r.u.keys[k]))
	}
	var gotKeys []string
	for _, n := range nodes[1:] {
		gotKeys = append(gotKeys, n.key)
	}
	if fmt.Sprint(gotKeys) != fmt.Sprint(wantKeys) {
		return "", fmt.Sprintf("printed form lists keys %v, the live keys in ascending order are %v", gotKeys, wantKeys)
	}
	for i, n := range nodes {
		for lvl, f := range n.fingers {
			if f == "nil" {
				continue
			}
			fr, ok := rank[f]
			if !ok {
				return "", fmt.Sprintf("node %q has a level-%d pointer to %q, which is not a live key (printed form:\n%s)", n.key, lvl, f, printed)
			}
			if i > 0 && fr <= rank[n.key] {
				return "", fmt.Sprintf("node %q has a level-%d pointer to %q, which is not a larger key", n.key, lvl, f)
			}
		}
	}
	// full read-back on a second instance (a read may change hidden state, e.g. a lookup cache, so the
	// instance whose state is canonicalised below is not read)
	// further instances are printed once in the middle of the history (after operation i, for every i but the last),
	// and one after every operation: the last printout is the same text
	for i := -1; i < len(hist)-1 && len(hist) >= 2; i++ {
		mp, _, _, _, _ := r.exec(hist, i)
		if p3 := stripHeader(fmt.Sprint(mp)); p3 != printed {
			when := fmt.Sprintf("after operation %d (%s)", i+1, hist[max(i, 0)])
			if i < 0 {
				when = "after every operation"
			}
			return "", fmt.Sprintf("a list that was also printed %s prints\n%s\nat the end of the same history; a list that was never printed before prints\n%s", when, p3, printed)
		}
	}
	m2, ref2, _, _, _ := r.exec(hist)
	for k := range r.u.keys {
		if v := m2.Get(r.u.keys[k]); v != ref2[k] {
			return "", fmt.Sprintf("Get(k%d) = %q, an ordinary map holds %q", k, v, ref2[k])
		}
	}
	// canonical state: the complete object graph of the list (all fields of the list and of every node,
	// hidden ones included), so that two histories are merged only if the lists are structurally identical
	return skiplist.VerifDump(m), ""
}

func (r runner[K]) alphabet() []op {
	var ops []op
	for k := range r.u.keys {
		for v := 1; v <= r.u.nvals; v++ {
			for h := 1; h <= r.u.maxH; h++ {
				ops = append(ops, op{"put", k, v, h})
			}
		}
		ops = append(ops, op{"get", k, 0, 0}, op{"remove", k, 0, 0})
	}
	return ops
}

func (r runner[K]) bfs(deadline time.Time) drv.Result {
	res := drv.Result{Case: r.u.name, Exhaustive: true, Nontrivial: 1}
	ops := r.alphabet()
	seen := map[string]bool{}
	c0, msg := r.check(nil)
	if msg != "" {
		res.Viols = append(res.Viols, drv.Viol{Sig: "C18/" + r.u.name + "/initial", Msg: msg, Replay: []op{}})
		return res
	}
	seen[c0] = true
	frontier := [][]op{nil}
	shapes := map[string]map[string]bool{} // abstract content -> printed shapes (diagnostic)
	maxDepth := 0
	for len(frontier) > 0 {
		hist := frontier[0]
		frontier = frontier[1:]
		if len(hist) > maxDepth {
			maxDepth = len(hist)
		}
		for _, o := range ops {
			next := append(append([]op{}, hist...), o)
			res.Transitions++
			drv.Tick()
			c, msg := r.check(next)
			if msg != "" {
				var hs []string
				for _, x := range next {
					hs = append(hs, x.String())
				}
				sig := "C18/" + r.u.name + "/" + o.Kind
				res.Viols = append(res.Viols, drv.Viol{Sig: sig, Msg: fmt.Sprintf("order %s, history %v: %s", r.u.name, hs, msg), Replay: next})
				res.States = len(seen)
				return res
			}
			if !seen[c] {
				seen[c] = true
				frontier = append(frontier, next)
			}
			_ = shapes
		}
		if time.Now().After(deadline) {
			res.Exhaustive = false
			res.Note = "time budget reached"
			break
		}
	}
	res.States = len(seen)
	res.Evaluations = res.Transitions
	res.Maxima = map[string]int{"bfs_depth": maxDepth}
	res.Sample = map[string]any{"order": r.u.name, "keys": fmt.Sprint(r.u.keys), "values": r.u.nvals, "heights": r.u.maxH, "alphabet": len(ops), "reachable_states": len(seen), "transitions": res.Transitions, "bfs_depth": maxDepth}
	return res
}

func intLess(a, b int) bool { return a < b }

func cases(tier string) []func(time.Time) drv.Result {
	nk, mh := 3, 3
	if tier == "thorough" {
		nk, mh = 4, 4
	}
	// the zero value of the key type is a key of every universe, and not the smallest one under every order
	// (the head sentinel of the list carries the zero key)
	ints := []int{-10, 0, 10, 20, 30}[:max(nk, 4)]
	strs := []string{"", "a", "ab", "b", "ba"}[:max(nk, 4)]
	rev := ord.From[int](func(a, b int) ord.Ordering { return ord.Int.Compare(b, a) })
	var cs []func(time.Time) drv.Result
	mk := func(name string, nk, mh int) {
		cs = append(cs,
			func(d time.Time) drv.Result {
				return runner[int]{universe[int]{name + " ord.Int", ints[:nk], ord.Int, intLess, 2, mh}}.bfs(d)
			},
			func(d time.Time) drv.Result {
				return runner[int]{universe[int]{name + " reversed ord.From", ints[:nk], rev, func(a, b int) bool { return a > b }, 2, mh}}.bfs(d)
			},
			func(d time.Time) drv.Result {
				return runner[string]{universe[string]{name + " ord.String", strs[:nk], ord.String, func(a, b string) bool { return a < b }, 2, mh}}.bfs(d)
			})
	}
	mk(fmt.Sprintf("%d keys x 2 values x heights 1..%d", nk, mh), nk, mh)
	if tier == "quick" {
		mk("4 keys x 2 values x heights 1..2", 4, 2)
		ints4 := []int{-10, 0, 10, 20}
		cs = append(cs, func(d time.Time) drv.Result {
			return runner[int]{universe[int]{"4 keys x 2 values x heights 1..3 ord.Int", ints4, ord.Int, intLess, 2, 3}}.bfs(d)
		})
		cs = append(cs, func(d time.Time) drv.Result {
			return runner[int]{universe[int]{"2 keys x 2 values x heights 1..8 ord.Int", ints4[:2], ord.Int, intLess, 2, 8}}.bfs(d)
		})
	}
	if tier == "thorough" {
		ints = []int{-10, 0, 10, 20, 30}
		cs = append(cs, func(d time.Time) drv.Result {
			return runner[int]{universe[int]{"5 keys x 2 values x heights 1..3 ord.Int", ints, ord.Int, intLess, 2, 3}}.bfs(d)
		})
		cs = append(cs, func(d time.Time) drv.Result {
			return runner[int]{universe[int]{"3 keys x 2 values x heights 1..6 ord.Int", ints[:3], ord.Int, intLess, 2, 6}}.bfs(d)
		})
	}
	return cs
}

func main() {
	drv.Main(drv.Property{
		ID: "C18", Level: "model_checking", PanicIsViolation: true, MemLimitGB: 8,
		Rule:        "one case = (order: ord.Int, reversed ord.From, ord.String) x universe (3 keys, 2 values, node heights 1..3, plus 4 keys x heights 1..2, 4 keys x heights 1..3 under ord.Int and 2 keys x heights 1..8 in quick; 4 keys and heights 1..4, 5 keys x heights 1..3, 3 keys x heights 1..6 in thorough); breadth-first search over ALL reachable states, a state being the complete object graph of the list obtained by reflection inside the staged package (every field of the list and of each node, unexported and future ones included, pointers normalised to discovery order) - the concrete state, so merging is exact even if a change adds hidden state such as a lookup cache; every transition = one Put(k,v,height) / Get(k) / Remove(k) executed on a fresh real list after replaying the shortest history; node heights are an enumerated choice (scripted rand.Source installed through a seam file added to the staged copy)",
		Assumptions: []string{"the seam file added to the staged copy of internal/maplike/skiplist only replaces the list's rand.Source", "larger universes / longer random histories are not sampled (outside this family)"},
		Cases: func(tier string) (int, func(int) string) {
			return len(cases(tier)), func(i int) string { return fmt.Sprintf("skiplist bfs #%d", i) }
		},
		Run: func(tier string, i int, deadline time.Time) drv.Result {
			r := cases(tier)[i](deadline)
			return r
		},
		Extra: func(_ string, cov map[string]any) {
			cov["traces_validated_against_impl"] = cov["transitions"]
			cov["explanation"] = "there is no separate model: every transition is executed on the real skip list and compared with a map"
		},
	})
}
