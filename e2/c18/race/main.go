// Free-running race pass of C18 (the exploration of the driver next door is sequential and decides the property; this pass only
// looks for what a sequential exploration cannot see): several goroutines, each with skip lists of its OWN that it shares
// with nobody, run put/get/remove histories against plain maps under the race detector. Lists that are not shared have no
// business touching common mutable state: a report of the race detector, a panic or a wrong answer is a violation ("the
// list answers like a map ... independently of the random node heights" - and of what unrelated lists do).
package main

import (
	"fmt"
	"os"
	"sync"

	"github.com/fogfish/golem/maplike/skiplist"
	"github.com/fogfish/golem/pure/ord"
)

func main() {
	const G, N = 4, 3000
	var wg sync.WaitGroup
	start := make(chan struct{})
	bad := make(chan string, G)
	for g := 0; g < G; g++ {
		wg.Add(1)
		go func() {
			defer wg.Done()
			defer func() {
				if p := recover(); p != nil {
					bad <- fmt.Sprintf("goroutine %d: panic on a list nobody else uses: %v", g, p)
				}
			}()
			<-start
			ref := map[int]string{}
			m := skiplist.New[int, string](ord.Int)
			x := uint32(g*7919 + 1)
			for i := 0; i < N; i++ {
				x = x*1664525 + 1013904223
				k, v := int(x>>16)%64, fmt.Sprint(i)
				switch (x >> 8) % 4 {
				case 0, 1:
					m.Put(k, v)
					ref[k] = v
				case 2:
					if got := m.Get(k); got != ref[k] {
						bad <- fmt.Sprintf("goroutine %d: Get(%d) = %q, the map holds %q", g, k, got, ref[k])
						return
					}
				case 3:
					if got := m.Remove(k); got != ref[k] {
						bad <- fmt.Sprintf("goroutine %d: Remove(%d) = %q, the map holds %q", g, k, got, ref[k])
						return
					}
					delete(ref, k)
				}
				if i%500 == 0 { // new lists keep being created while the others work
					m = skiplist.New[int, string](ord.Int)
					ref = map[int]string{}
				}
			}
		}()
	}
	close(start)
	wg.Wait()
	close(bad)
	for b := range bad {
		fmt.Println("RACEPASS-VIOLATION " + b)
		os.Exit(1)
	}
	fmt.Printf("RACEPASS ok goroutines=%d operations=%d\n", G, G*N)
}
