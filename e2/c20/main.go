// C20 driver: every PipeN of the staged internal/pipe package composes left to
// right and applies each function exactly once per invocation. The tables
// (generated at check time from the staged source) list every exported Pipe
// function, instantiated at a struct type and at the interface type any.
package main

import (
	"fmt"
	"time"

	"verif/drv"
)

// S is the value threaded through the composition: V is transformed by
// pairwise non-commuting affine maps.
type S struct {
	V int
}

type entry[T any] struct {
	Name  string
	N     int
	Build func(fs []func(T) T) func(T) T
}

const prime = 1000003

func coef(i int) (a, b int) { return i + 2, 2*i + 1 } // x -> (i+2)x + 2i+1: no two of them commute

func want(n, arg int) int {
	v := arg
	for i := 0; i < n; i++ {
		a, b := coef(i)
		v = (a*v + b) % prime
	}
	return v
}

type rec struct {
	r *drv.Result
	e string
	n int
}

func (c rec) fail(sig, msg string, arg any) {
	if len(c.r.Viols) < 4 {
		c.r.Viols = append(c.r.Viols, drv.Viol{Sig: "C20/" + sig, Msg: fmt.Sprintf("%s (arity %d), argument %v: %s", c.e, c.n, arg, msg), Replay: map[string]any{"func": c.e, "arg": fmt.Sprint(arg), "family": sig}})
	}
}

func seqN(n int) []int {
	xs := make([]int, n)
	for i := range xs {
		xs[i] = i + 1
	}
	return xs
}

// family 1: struct values, affine maps, trace of calls, counters, two invocations
func famValues(e entry[S], c rec) {
	for _, arg := range []int{0, 1, 2, 7, prime - 1} {
		var trace []int
		fs := make([]func(S) S, e.N)
		for i := range fs {
			i := i
			fs[i] = func(s S) S {
				trace = append(trace, i+1)
				a, b := coef(i)
				return S{V: (a*s.V + b) % prime}
			}
		}
		g := e.Build(fs)
		c.r.Evaluations++
		drv.Tick()
		if len(trace) != 0 {
			c.fail("eager", fmt.Sprintf("functions %v were applied while composing, before the composition was invoked", trace), arg)
			return
		}
		for round := 1; round <= 2; round++ {
			trace = nil
			got := g(S{V: arg})
			if fmt.Sprint(trace) != fmt.Sprint(seqN(e.N)) {
				c.fail("order", fmt.Sprintf("invocation %d applied the functions in the order %v, want each once in the order %v", round, trace, seqN(e.N)), arg)
				return
			}
			if got.V != want(e.N, arg) {
				c.fail("value", fmt.Sprintf("result %d, want f%d(...f2(f1(a))) = %d", got.V, e.N, want(e.N, arg)), arg)
				return
			}
		}
	}
}

// family 2: interface values including nil travelling through the pipeline
func famNil(e entry[any], c rec) {
	for _, pattern := range []int{0, 1, 2, 3} { // which functions return a nil interface
		for _, arg := range []any{nil, 5, "x", error(nil)} {
			var trace []int
			fs := make([]func(any) any, e.N)
			for i := range fs {
				i := i
				fs[i] = func(x any) any {
					trace = append(trace, i+1)
					switch pattern {
					case 1:
						return nil
					case 2:
						if i%2 == 0 {
							return nil
						}
					case 3:
						if i%2 == 1 {
							return nil
						}
					}
					return i + 1
				}
			}
			c.r.Evaluations++
			drv.Tick()
			got := e.Build(fs)(arg)
			if fmt.Sprint(trace) != fmt.Sprint(seqN(e.N)) {
				c.fail("nil-order", fmt.Sprintf("with nil interface values in the pipeline (pattern %d) the functions were applied in the order %v, want %v", pattern, trace, seqN(e.N)), arg)
				return
			}
			var w any = e.N
			if pattern == 1 || (pattern == 2 && (e.N-1)%2 == 0) || (pattern == 3 && (e.N-1)%2 == 1) {
				w = nil
			}
			if got != w {
				c.fail("nil-value", fmt.Sprintf("result %v, want the last function's result %v (pattern %d)", got, w, pattern), arg)
				return
			}
		}
	}
}

// family 2b: the same at a pointer type: a nil pointer is a value like any other - every function is applied to it,
// and what a function makes of nil is that function's business
func famNilPtr(e entry[*int], c rec) {
	for _, pattern := range []int{0, 1, 2} { // which functions return a nil pointer: none / the even ones / the odd ones
		for _, start := range []*int{nil, ptr(4)} {
			var trace []int
			step := func(i int, p *int) *int {
				v := 1 // what nil counts as
				if p != nil {
					v = *p
				}
				if (pattern == 1 && i%2 == 0) || (pattern == 2 && i%2 == 1) {
					if v%2 == 1 {
						return nil
					}
				}
				return ptr((v*7 + i + 1) % prime)
			}
			fs := make([]func(*int) *int, e.N)
			for i := range fs {
				i := i
				fs[i] = func(p *int) *int { trace = append(trace, i+1); return step(i, p) }
			}
			c.r.Evaluations++
			drv.Tick()
			got := e.Build(fs)(start)
			want := start
			for i := 0; i < e.N; i++ {
				want = step(i, want)
			}
			if fmt.Sprint(trace) != fmt.Sprint(seqN(e.N)) {
				c.fail("nilptr-order", fmt.Sprintf("with nil pointers travelling through a pipeline of func(*int) *int (pattern %d) the functions were applied in the order %v, want %v", pattern, trace, seqN(e.N)), show(start))
				return
			}
			if show(got) != show(want) {
				c.fail("nilptr-value", fmt.Sprintf("pipeline of func(*int) *int (pattern %d): result %s, applying the functions one by one gives %s", pattern, show(got), show(want)), show(start))
				return
			}
		}
	}
}

func ptr(v int) *int { return &v }

func show(p *int) string {
	if p == nil {
		return "nil"
	}
	return fmt.Sprintf("&%d", *p)
}

// family 3: re-entrancy - one of the functions invokes the composition itself
func famReentrant(e entry[S], c rec) {
	for k := 0; k < e.N; k++ {
		var g func(S) S
		depthSeen := 0
		var trace []string
		fs := make([]func(S) S, e.N)
		for i := range fs {
			i := i
			fs[i] = func(s S) S {
				trace = append(trace, fmt.Sprintf("%d", i+1))
				a, b := coef(i)
				if i == k && depthSeen == 0 {
					depthSeen++
					trace = append(trace, "(")
					inner := g(S{V: 3})
					trace = append(trace, ")")
					if inner.V != want(e.N, 3) {
						c.fail("reentrant", fmt.Sprintf("function %d invoked the composition recursively and got %d, want %d", k+1, inner.V, want(e.N, 3)), 3)
					}
				}
				return S{V: (a*s.V + b) % prime}
			}
		}
		g = e.Build(fs)
		c.r.Evaluations++
		drv.Tick()
		got := g(S{V: 1})
		if got.V != want(e.N, 1) {
			c.fail("reentrant", fmt.Sprintf("function %d invokes the composition recursively; the outer invocation returned %d, want %d (call trace %v)", k+1, got.V, want(e.N, 1), trace), 1)
			return
		}
		if len(trace) != 2*e.N+2 {
			c.fail("reentrant", fmt.Sprintf("function %d invokes the composition recursively: %d function applications in total, want %d (trace %v)", k+1, len(trace)-2, 2*e.N, trace), 1)
			return
		}
	}
}

// family 4: two invocations of one composition overlap; every interleaving at
// function granularity for small arities, the "A parks in f_k while B runs
// completely" interleavings for all arities. The functions are gated so that
// exactly one invocation runs at a time (no data race is involved).
func famOverlap(e entry[S], c rec) {
	type gate struct{ turn chan struct{} }
	run := func(schedule []int) bool { // schedule: which invocation performs its next function application
		gates := [2]chan struct{}{make(chan struct{}), make(chan struct{})}
		arrived := make(chan int)
		done := make(chan [2]int, 2)
		fs := make([]func(S) S, e.N)
		for i := range fs {
			i := i
			fs[i] = func(s S) S {
				inv := s.V >> 40 // the invocation id travels in the value
				arrived <- inv
				<-gates[inv]
				a, b := coef(i)
				v := s.V & (1<<40 - 1)
				return S{V: inv<<40 | (a*v+b)%prime}
			}
		}
		g := e.Build(fs)
		for inv := 0; inv < 2; inv++ {
			inv := inv
			go func() { r := g(S{V: inv<<40 | (inv + 1)}); done <- [2]int{inv, r.V & (1<<40 - 1)} }()
		}
		// both invocations arrive at their first function
		waiting := map[int]bool{}
		for len(waiting) < 2 {
			waiting[<-arrived] = true
		}
		res := map[int]int{}
		left := [2]int{e.N, e.N}
		for _, inv := range schedule {
			gates[inv] <- struct{}{}
			left[inv]--
			if left[inv] > 0 {
				<-arrived
			} else {
				d := <-done
				res[d[0]] = d[1]
			}
		}
		c.r.Evaluations++
		drv.Tick()
		for inv := 0; inv < 2; inv++ {
			if res[inv] != want(e.N, inv+1) {
				c.fail("overlap", fmt.Sprintf("two overlapping invocations of one composition, schedule %v (which invocation applies its next function): invocation %d returned %d, want %d", schedule, inv, res[inv], want(e.N, inv+1)), inv+1)
				return false
			}
		}
		return true
	}
	if e.N <= 5 {
		var gen func(p []int, a, b int) bool
		gen = func(p []int, a, b int) bool {
			if a == 0 && b == 0 {
				return run(p)
			}
			if a > 0 && !gen(append(append([]int{}, p...), 0), a-1, b) {
				return false
			}
			if b > 0 && !gen(append(append([]int{}, p...), 1), a, b-1) {
				return false
			}
			return true
		}
		gen(nil, e.N, e.N)
		return
	}
	for k := 0; k <= e.N; k++ { // A applies k functions, B runs completely, A finishes
		var s []int
		for i := 0; i < k; i++ {
			s = append(s, 0)
		}
		for i := 0; i < e.N; i++ {
			s = append(s, 1)
		}
		for i := k; i < e.N; i++ {
			s = append(s, 0)
		}
		if !run(s) {
			return
		}
	}
}

// mk builds N tracing affine maps (offset off distinguishes the functions of different compositions); boom > 0 makes
// function number boom panic when *armed is set
func mk(n, off int, trace *[]int, boom int, armed *bool) []func(S) S {
	fs := make([]func(S) S, n)
	for i := range fs {
		i := i
		fs[i] = func(s S) S {
			*trace = append(*trace, off+i+1)
			if boom == i+1 && *armed {
				panic(fmt.Sprintf("boom %d", off+i+1))
			}
			a, b := coef(i)
			return S{V: (a*s.V + b) % prime}
		}
	}
	return fs
}

func seqOff(n, off int) []int {
	xs := seqN(n)
	for i := range xs {
		xs[i] += off
	}
	return xs
}

// family 5: histories over several compositions. (a) build X, build Y (every other exported arity), then invoke X, Y, X:
// what is built later may not change what was built earlier; (b) function k of X panics, the caller recovers, and X and
// every other composition Y are invoked again: an abandoned invocation leaves nothing behind.
func famHistory(e entry[S], c rec) {
	call := func(what string, g func(S) S, n, off int, trace *[]int, arg int) bool {
		*trace = nil
		got := g(S{V: arg})
		c.r.Evaluations++
		if fmt.Sprint(*trace) != fmt.Sprint(seqOff(n, off)) {
			c.fail("history-order", fmt.Sprintf("%s applied the functions %v, want each of its own once in the order %v", what, *trace, seqOff(n, off)), arg)
			return false
		}
		if got.V != want(n, arg) {
			c.fail("history-value", fmt.Sprintf("%s returned %d, want %d", what, got.V, want(n, arg)), arg)
			return false
		}
		return true
	}
	for _, y := range table {
		drv.Tick()
		var trace []int
		off := false
		x := e.Build(mk(e.N, 0, &trace, 0, &off))
		g := y.Build(mk(y.N, 100, &trace, 0, &off))
		if len(trace) != 0 {
			c.fail("eager", fmt.Sprintf("functions %v were applied while composing", trace), 0)
			return
		}
		for _, arg := range []int{1, 5} {
			if !call(fmt.Sprintf("X built by %s, invoked after %s built Y", e.Name, y.Name), x, e.N, 0, &trace, arg) ||
				!call(fmt.Sprintf("Y built by %s after X (%s)", y.Name, e.Name), g, y.N, 100, &trace, arg) ||
				!call(fmt.Sprintf("X (%s) invoked again after Y (%s)", e.Name, y.Name), x, e.N, 0, &trace, arg) {
				return
			}
		}
	}
	for k := 1; k <= e.N; k++ {
		drv.Tick()
		var trace []int
		armed := true
		x := e.Build(mk(e.N, 0, &trace, k, &armed))
		var others []func(S) S
		for _, y := range table {
			others = append(others, y.Build(mk(y.N, 100, &trace, 0, &armed)))
		}
		trace = nil
		func() {
			defer func() {
				if r := recover(); r == nil {
					c.fail("history-panic", fmt.Sprintf("function %d panicked but the invocation returned normally", k), 3)
				}
			}()
			x(S{V: 3})
		}()
		c.r.Evaluations++
		if fmt.Sprint(trace) != fmt.Sprint(seqN(k)) {
			c.fail("history-panic", fmt.Sprintf("function %d panics: the functions applied were %v, want %v", k, trace, seqN(k)), 3)
			return
		}
		armed = false
		if !call(fmt.Sprintf("%s invoked again after its function %d panicked (recovered by the caller)", e.Name, k), x, e.N, 0, &trace, 2) {
			return
		}
		armed = true
		trace = nil
		func() { defer func() { recover() }(); x(S{V: 3}) }()
		armed = false
		for j, y := range table {
			if !call(fmt.Sprintf("%s invoked after function %d of %s panicked (recovered by the caller)", y.Name, k, e.Name), others[j], y.N, 100, &trace, 2) {
				return
			}
			armed = true
			trace = nil
			func() { defer func() { recover() }(); x(S{V: 3}) }()
			armed = false
		}
	}
}

func run(i int) drv.Result {
	e, ea := table[i], tableAny[i]
	r := drv.Result{Case: e.Name, Exhaustive: true, Nontrivial: 1}
	c := rec{&r, e.Name, e.N}
	famValues(e, c)
	famNil(ea, c)
	famNilPtr(tablePtr[i], c)
	famReentrant(e, c)
	famHistory(e, c)
	done := make(chan struct{})
	go func() { famOverlap(e, c); close(done) }()
	select {
	case <-done:
	case <-time.After(60 * time.Second):
		// a wall-clock limit is not an oracle (a loaded machine can starve the process): inconclusive, not a violation
		r.Exhaustive = false
		r.Note = "the overlapping-invocation family did not finish within 60 s"
	}
	r.Sample = map[string]any{"function": e.Name, "arity": e.N, "families": "affine maps with call trace (5 arguments x 2 invocations); nil interface values through any-typed pipeline (4 nil patterns x 4 arguments); re-entrant invocation from each position; two overlapping invocations under every function-level interleaving (N<=5) or every park-point (N>5); histories: build X, build Y, invoke X/Y/X for every other arity Y, and function k panics (recovered) followed by invocations of X and of every Y", "evaluations": r.Evaluations}
	return r
}

func main() {
	drv.Main(drv.Property{
		ID: "C20", Level: "exploration", PanicIsViolation: true, MemLimitGB: 4,
		Rule:        "one case = one exported PipeN function of internal/pipe (tables generated from the staged source, so a new arity is picked up); per function: (1) 5 arguments x 2 invocations with pairwise non-commuting affine maps and a call trace (order, exactly-once, no application at composition time); (2) the same function instantiated at type any with nil interface values entering and travelling through the pipeline (4 patterns x 4 arguments), and at type *int with nil pointers (3 patterns x 2 arguments); (3) a re-entrant invocation issued from inside function k, for every k; (4) two overlapping invocations of one composition, gated at function granularity: all C(2N,N) interleavings for N<=5, all N+1 park points for larger N; (5) histories over two compositions: X built, then Y built (every exported arity), then X, Y, X invoked; and function k of X panics (for every k, recovered by the caller), after which X and every other composition are invoked again; every case is non-trivial (any transposition, omission, duplication or shared per-composition state changes trace, value or counters)",
		Assumptions: []string{"arities outside the generated table do not exist in the package", "argument values beyond those tried are covered by parametricity of the generic functions", "overlapping invocations are serialized by gates: data races inside PipeN itself are not modelled"},
		Cases: func(string) (int, func(int) string) {
			return len(table), func(i int) string { return table[i].Name }
		},
		Run: func(_ string, i int, _ time.Time) drv.Result { return run(i) },
		Extra: func(_ string, cov map[string]any) {
			var ns []int
			for _, e := range table {
				ns = append(ns, e.N)
			}
			cov["arities_found"] = ns
		},
	})
}
