// C20 driver: every PipeN of the staged internal/pipe package composes left to
// right and applies each function exactly once. table (generated at check time
// from the staged source) lists every exported Pipe function with its arity.
package main

import (
	"fmt"
	"time"

	"verif/drv"
)

// S is the value threaded through the composition: the trace records the order
// of application, V is transformed by pairwise non-commuting affine maps.
type S struct {
	Trace []int
	V     int
}

type entry struct {
	Name  string
	N     int
	Build func(fs []func(S) S) func(S) S
}

const prime = 1000003

func coef(i int) (a, b int) { return i + 2, 2*i + 1 } // x -> (i+2)x + 2i+1: no two of them commute

func run(e entry) drv.Result {
	r := drv.Result{Case: e.Name, Exhaustive: true, Nontrivial: 1}
	args := []int{0, 1, 2, 7, prime - 1}
	fail := func(sig, msg string, arg int) {
		r.Viols = append(r.Viols, drv.Viol{Sig: "C20/" + sig, Msg: fmt.Sprintf("%s (arity %d), argument %d: %s", e.Name, e.N, arg, msg), Replay: map[string]any{"func": e.Name, "arg": arg}})
	}
	for _, arg := range args {
		counts := make([]int, e.N)
		fs := make([]func(S) S, e.N)
		for i := range fs {
			i := i
			fs[i] = func(s S) S {
				counts[i]++
				a, b := coef(i)
				return S{Trace: append(append([]int{}, s.Trace...), i+1), V: (a*s.V + b) % prime}
			}
		}
		g := e.Build(fs)
		r.Evaluations++
		for i, c := range counts {
			if c != 0 {
				fail("eager", fmt.Sprintf("function %d was applied %d times while composing, before the composition was invoked", i+1, c), arg)
			}
		}
		for round := 1; round <= 2; round++ {
			got := g(S{V: arg})
			want := S{V: arg}
			for i := 0; i < e.N; i++ {
				a, b := coef(i)
				want = S{Trace: append(want.Trace, i+1), V: (a*want.V + b) % prime}
			}
			if fmt.Sprint(got.Trace) != fmt.Sprint(want.Trace) {
				fail("order", fmt.Sprintf("functions applied in the order %v, want %v", got.Trace, want.Trace), arg)
				break
			}
			if got.V != want.V {
				fail("value", fmt.Sprintf("result %d, want f%d(...f2(f1(a))) = %d", got.V, e.N, want.V), arg)
				break
			}
			for i, c := range counts {
				if c != round {
					fail("count", fmt.Sprintf("after %d invocation(s) function %d has been applied %d times", round, i+1, c), arg)
				}
			}
		}
	}
	r.Sample = map[string]any{"function": e.Name, "arity": e.N, "arguments": args, "families": "trace-append and affine maps x->(i+2)x+2i+1 mod 1000003"}
	return r
}

func main() {
	drv.Main(drv.Property{
		ID: "C20", Level: "exploration",
		Rule: "one case = one exported PipeN function of internal/pipe (table generated from the staged source, so a new arity is picked up); for each: 5 arguments x 2 invocations with N functions that append their index to a trace (the result is the call sequence) and apply pairwise non-commuting affine maps, with per-function call counters; every case is non-trivial (any transposition, omission or duplication changes trace, value or counters)",
		Assumptions: []string{"arities outside the generated table do not exist in the package", "argument values beyond the 5 tried are covered by parametricity of the generic functions"},
		Cases: func(string) (int, func(int) string) {
			return len(table), func(i int) string { return table[i].Name }
		},
		Run: func(_ string, i int, _ time.Time) drv.Result { return run(table[i]) },
		Extra: func(_ string, cov map[string]any) {
			var ns []int
			for _, e := range table {
				ns = append(ns, e.N)
			}
			cov["arities_found"] = ns
		},
	})
}
