module e2c20

go 1.24
