module e2c14

go 1.24
