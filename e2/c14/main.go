// C14 driver: every expression tree over the trait/seq combinators up to a
// depth bound is built from fresh slices and driven as a state machine against
// its list-function reference.
package main

import (
	"context"
	"errors"
	"fmt"
	"io"
	"io/fs"
	"strings"
	"time"

	"github.com/fogfish/golem/trait/seq"
	"verif/drv"
)

type S = seq.Seq[int]

// ---- alphabet -------------------------------------------------------------

type pred struct {
	name string
	f    func(int) bool
}
type mapper struct {
	name string
	f    func(int) int
}
type joiner struct {
	name string
	f    func(env *env, x int) (S, []int)
}

var preds = []pred{
	{"<2", func(x int) bool { return x < 2 }},
	{"<3", func(x int) bool { return x < 3 }},
	{"odd", func(x int) bool { return x%2 != 0 }},
	{"true", func(int) bool { return true }},
	{"false", func(int) bool { return false }},
}
var mappers = []mapper{
	{"+1", func(x int) int { return x + 1 }},
	{"*2", func(x int) int { return x * 2 }},
	{"const7", func(int) int { return 7 }},
	{"-1", func(x int) int { return x - 1 }}, // zero-value alphabet only
}

const fullMappers, fullJoiners, fullLeafSlices = 3, 6, 16

func upto(x int) []int {
	var r []int
	for i := 1; i <= x && i <= 5; i++ {
		r = append(r, i)
	}
	return r
}

var joiners = []joiner{
	{"nil", func(e *env, x int) (S, []int) { return nil, nil }},
	{"From(x)", func(e *env, x int) (S, []int) { return seq.From(x), []int{x} }},
	{"[x,x+1]", func(e *env, x int) (S, []int) { return e.slice([]int{x, x + 1}), []int{x, x + 1} }},
	{"nil-if-odd", func(e *env, x int) (S, []int) {
		if x%2 != 0 {
			return nil, nil
		}
		return seq.From(x), []int{x}
	}},
	{"[1..x]", func(e *env, x int) (S, []int) { return e.slice(upto(x)), upto(x) }},
	{"tw-if-odd", func(e *env, x int) (S, []int) {
		// a predicate-terminated TakeWhile for odd x, nothing for even x
		if x%2 == 0 {
			return nil, nil
		}
		// (elements that satisfy the predicate again remain behind the failing one, so an iterator that is
		// wrongly resumed after its end would leak them)
		return seq.TakeWhile(e.slice([]int{1, 2, 9, 1, 2}), func(v int) bool { return v < 3 }), []int{1, 2}
	}},
	// zero-value alphabet only: unit sequences holding the zero value of the element type
	{"From(x-1)", func(e *env, x int) (S, []int) { return seq.From(x - 1), []int{x - 1} }},
	{"From(0)", func(e *env, x int) (S, []int) { return seq.From(0), []int{0} }},
	{"[0]-if-odd", func(e *env, x int) (S, []int) {
		if x%2 == 0 {
			return nil, nil
		}
		return e.slice([]int{0}), []int{0}
	}},
}

// env owns the source slices of one evaluation: every source has spare capacity
// filled with a sentinel, and must be byte-identical afterwards.
type env struct {
	backing [][]int
	golden  [][]int
}

const sentinel = -99

func (e *env) slice(xs []int) S {
	b := make([]int, len(xs)+2)
	copy(b, xs)
	b[len(xs)], b[len(xs)+1] = sentinel, sentinel
	e.backing = append(e.backing, b)
	e.golden = append(e.golden, append([]int{}, b...))
	return seq.FromSlice(b[:len(xs)])
}

func (e *env) intact() string {
	for i := range e.backing {
		if fmt.Sprint(e.backing[i]) != fmt.Sprint(e.golden[i]) {
			return fmt.Sprintf("a source slice was modified: %v became %v (the last two cells are spare capacity)", e.golden[i], e.backing[i])
		}
	}
	return ""
}

var leafSlices = func() [][]int {
	out := [][]int{nil}
	for a := 1; a <= 3; a++ {
		out = append(out, []int{a})
	}
	for a := 1; a <= 3; a++ {
		for b := 1; b <= 3; b++ {
			out = append(out, []int{a, b})
		}
	}
	out = append(out, []int{1, 2, 3}, []int{3, 2, 1}, []int{1, 3, 2, 4})
	return append(out, []int{0}, []int{0, 1}, []int{1, 0}, []int{0, 0}) // zero-value alphabet only
}()

// ---- trees ----------------------------------------------------------------

type node struct {
	kind string // slice from tw dw filter map plus join
	i    int    // index into the alphabet of the kind
	a, b *node
}

func (n *node) String() string {
	switch n.kind {
	case "slice":
		return fmt.Sprintf("FromSlice(%v)", leafSlices[n.i])
	case "from":
		return fmt.Sprintf("From(%d)", n.i)
	case "tw":
		return fmt.Sprintf("TakeWhile(%v, %s)", n.a, preds[n.i].name)
	case "dw":
		return fmt.Sprintf("DropWhile(%v, %s)", n.a, preds[n.i].name)
	case "filter":
		return fmt.Sprintf("Filter(%v, %s)", n.a, preds[n.i].name)
	case "map":
		return fmt.Sprintf("Map(%v, %s)", n.a, mappers[n.i].name)
	case "plus":
		return fmt.Sprintf("Plus(%v, %v)", n.a, n.b)
	case "join":
		return fmt.Sprintf("Join(%v, %s)", n.a, joiners[n.i].name)
	}
	return "?"
}

// build constructs the real iterator and the reference list.
func (n *node) build(e *env) (S, []int) {
	switch n.kind {
	case "slice":
		xs := leafSlices[n.i]
		return e.slice(xs), append([]int{}, xs...)
	case "from":
		return seq.From(n.i), []int{n.i}
	}
	s, ref := n.a.build(e)
	switch n.kind {
	case "tw":
		var out []int
		for _, x := range ref {
			if !preds[n.i].f(x) {
				break
			}
			out = append(out, x)
		}
		return seq.TakeWhile(s, preds[n.i].f), out
	case "dw":
		i := 0
		for i < len(ref) && preds[n.i].f(ref[i]) {
			i++
		}
		return seq.DropWhile(s, preds[n.i].f), ref[i:]
	case "filter":
		var out []int
		for _, x := range ref {
			if preds[n.i].f(x) {
				out = append(out, x)
			}
		}
		return seq.Filter(s, preds[n.i].f), out
	case "map":
		var out []int
		for _, x := range ref {
			out = append(out, mappers[n.i].f(x))
		}
		return seq.Map(s, mappers[n.i].f), out
	case "plus":
		s2, ref2 := n.b.build(e)
		return seq.Plus(s, s2), append(append([]int{}, ref...), ref2...)
	case "join":
		var out []int
		for _, x := range ref {
			_, r := joiners[n.i].f(&env{}, x)
			out = append(out, r...)
		}
		j := joiners[n.i]
		return seq.Join(s, func(x int) S { v, _ := j.f(e, x); return v }), out
	}
	panic("bad node")
}

type alphabet struct {
	leaves []*node
	unary  []node // templates (a unset)
	joins  []int
}

func fullAlphabet() alphabet {
	var al alphabet
	for i := range leafSlices[:fullLeafSlices] {
		al.leaves = append(al.leaves, &node{kind: "slice", i: i})
	}
	for x := 1; x <= 3; x++ {
		al.leaves = append(al.leaves, &node{kind: "from", i: x})
	}
	for _, k := range []string{"tw", "dw", "filter"} {
		for i := range preds {
			al.unary = append(al.unary, node{kind: k, i: i})
		}
	}
	for i := range mappers[:fullMappers] {
		al.unary = append(al.unary, node{kind: "map", i: i})
	}
	for i := range joiners[:fullJoiners] {
		al.joins = append(al.joins, i)
	}
	return al
}

// zeroAlphabet: the zero value of the element type is an element like any other - as the only element of a unit
// sequence (From(0)), inside slices, as the result of a mapping, and as what a flat-map function returns.
func zeroAlphabet() alphabet {
	al := alphabet{}
	for _, i := range []int{0, 1, fullLeafSlices, fullLeafSlices + 1, fullLeafSlices + 2, fullLeafSlices + 3} { // nil, [1], [0], [0 1], [1 0], [0 0]
		al.leaves = append(al.leaves, &node{kind: "slice", i: i})
	}
	al.leaves = append(al.leaves, &node{kind: "from", i: 0}, &node{kind: "from", i: 1})
	for _, k := range []string{"tw", "dw", "filter"} {
		for i := range preds {
			al.unary = append(al.unary, node{kind: k, i: i})
		}
	}
	al.unary = append(al.unary, node{kind: "map", i: 3}, node{kind: "map", i: 1})
	al.joins = []int{1, 3, fullJoiners, fullJoiners + 1, fullJoiners + 2}
	return al
}

func smallAlphabet() alphabet {
	al := alphabet{}
	for _, i := range []int{0, 1, 5, 15} { // nil, [1], [1 2], [1 3 2 4]
		al.leaves = append(al.leaves, &node{kind: "slice", i: i})
	}
	al.unary = []node{{kind: "tw", i: 1}, {kind: "tw", i: 2}, {kind: "dw", i: 0}, {kind: "dw", i: 2}, {kind: "filter", i: 2}, {kind: "filter", i: 1}, {kind: "map", i: 0}}
	al.joins = []int{3, 4, 5}
	return al
}

// level returns all trees of depth <= d.
func (al alphabet) level(d int) []*node {
	if d == 1 {
		return al.leaves
	}
	sub := al.level(d - 1)
	out := append([]*node{}, al.leaves...)
	for _, u := range al.unary {
		for _, a := range sub {
			n := u
			n.a = a
			out = append(out, &n)
		}
	}
	for _, j := range al.joins {
		for _, a := range sub {
			out = append(out, &node{kind: "join", i: j, a: a})
		}
	}
	for _, a := range sub {
		for _, b := range sub {
			out = append(out, &node{kind: "plus", a: a, b: b})
		}
	}
	return out
}

// ---- oracle ---------------------------------------------------------------

var errStop = errors.New("stop")

// stopErrs: the errors a callback may return are arbitrary values, including ones that other code treats as "not
// really an error"; ForEach hands back the very value it was given. The position decides which one is used.
var stopErrs = []error{errStop, io.EOF, fmt.Errorf("reading: %w", io.EOF), context.Canceled, io.ErrUnexpectedEOF, errors.New(""), fs.SkipDir, fmt.Errorf("walk: %w", fs.SkipDir), fs.SkipAll}

type checker struct {
	r *drv.Result
}

func (c *checker) viol(sig string, n *node, f string, a ...any) {
	if len(c.r.Viols) < 3 {
		c.r.Viols = append(c.r.Viols, drv.Viol{Sig: "C14/" + sig, Msg: n.String() + ": " + fmt.Sprintf(f, a...), Replay: map[string]any{"expr": n.String()}})
	}
}

// eval drives one tree as a state machine: Value() at position i, Next() to position i+1.
func (c *checker) eval(n *node) { c.evalTree(n, true) }

// evalLight: the state-machine drain and the source check, ForEach only without an injected error.
func (c *checker) evalLight(n *node) { c.evalTree(n, false) }

func (c *checker) evalTree(n *node, everyErrorPosition bool) {
	c.r.Evaluations++
	drv.Tick()
	e := &env{}
	s, ref := n.build(e)
	c.r.States += len(ref) + 1
	if len(ref) >= 2 {
		c.r.Nontrivial++
	}
	if (s == nil) != (len(ref) == 0) {
		c.viol("empty", n, "iterator is nil = %v, but the list is %v", s == nil, ref)
		return
	}
	for i := range ref {
		if v := s.Value(); v != ref[i] {
			c.viol("value", n, "position %d: Value() = %d, the list is %v", i, v, ref)
			return
		}
		c.r.Transitions++
		if has := s.Next(); has != (i+1 < len(ref)) {
			c.viol("next", n, "position %d: Next() = %v, the list is %v", i, has, ref)
			return
		}
	}
	if m := e.intact(); m != "" {
		c.viol("source-modified", n, "%s", m)
		return
	}
	// ForEach: visits the list in order and stops at the first error, at every position
	first := 0
	if !everyErrorPosition {
		first = len(ref)
	}
	for p := first; p <= len(ref); p++ {
		e2 := &env{}
		s2, _ := n.build(e2)
		var seen []int
		err := seq.ForEach(s2, func(x int) error {
			seen = append(seen, x)
			if len(seen) == p+1 {
				return stopErrs[p%len(stopErrs)]
			}
			return nil
		})
		want := ref
		var wantErr error
		if p < len(ref) {
			want, wantErr = ref[:p+1], stopErrs[p%len(stopErrs)]
		}
		c.r.Transitions += len(seen)
		if fmt.Sprint(seen) != fmt.Sprint(want) || err != wantErr {
			c.viol("foreach", n, "ForEach failing at visit %d: visited %v and returned %v, want %v and %v", p+1, seen, err, want, wantErr)
			return
		}
		if m := e2.intact(); m != "" {
			c.viol("source-modified", n, "%s", m)
			return
		}
	}
}

// ---- cases ----------------------------------------------------------------

type caseDef struct {
	name string
	run  func(c *checker, deadline time.Time)
}

func mkCases(tier string) []caseDef {
	al, depth := fullAlphabet(), 3
	if tier == "thorough" {
		cs := append(mkCasesFor(fullAlphabet(), 3, "full alphabet"), mkCasesFor(smallAlphabet(), 4, "reduced alphabet")...)
		cs = append(cs, deeperCases(fullAlphabet(), 3, "full alphabet")...)
		cs = append(cs, mkCasesFor(zeroAlphabet(), 3, "zero-value alphabet")...)
		cs = append(cs, ifaceCase())
		return append(cs, deeperCases(smallAlphabet(), 4, "reduced alphabet")...)
	}
	cs := append(mkCasesFor(al, depth, "full alphabet"), deeperCases(al, 3, "full alphabet")...)
	return append(append(cs, mkCasesFor(zeroAlphabet(), 3, "zero-value alphabet")...), ifaceCase())
}

// ifaceCase: mappings into an interface type whose results include the nil interface value - an element like any other.
func ifaceCase() caseDef {
	return caseDef{"mappings into an interface type (any, error) with nil results", func(c *checker, _ time.Time) {
		toAny := func(x int) any {
			if x%2 == 0 {
				return nil
			}
			return x
		}
		toErr := func(x int) error {
			if x%2 == 1 {
				return nil
			}
			return fmt.Errorf("e%d", x)
		}
		drain := func(s seq.Seq[any]) []any {
			out := []any{}
			for has := s != nil; has; has = s.Next() {
				out = append(out, s.Value())
			}
			return out
		}
		fail := func(what string, got, want any) {
			if len(c.r.Viols) < 3 {
				c.r.Viols = append(c.r.Viols, drv.Viol{Sig: "C14/interface-values", Msg: fmt.Sprintf("%s = %v, the list functions give %v", what, got, want), Replay: map[string]any{"expr": what}})
			}
		}
		for _, xs := range [][]int{{}, {1}, {2}, {1, 2}, {2, 1}, {2, 4}, {1, 2, 3, 4}, {2, 2, 1}} {
			c.r.Evaluations++
			src := func() seq.Seq[int] { return seq.FromSlice(append([]int{}, xs...)) }
			var img []any
			var errs []any
			for _, x := range xs {
				img = append(img, toAny(x))
				errs = append(errs, toErr(x))
			}
			if img == nil {
				img, errs = []any{}, []any{}
			}
			name := fmt.Sprintf("Map(FromSlice(%v), x -> nil if x is even else x)", xs)
			if got := drain(seq.Map(src(), toAny)); fmt.Sprint(got) != fmt.Sprint(img) {
				fail(name, got, img)
			}
			var ge []any
			me := seq.Map(src(), toErr)
			for has := me != nil; has; has = me.Next() {
				ge = append(ge, me.Value())
			}
			if fmt.Sprint(ge) != fmt.Sprint(errs) && len(xs) > 0 {
				fail(fmt.Sprintf("Map(FromSlice(%v), x -> nil error if x is odd)", xs), ge, errs)
			}
			isNil := func(v any) bool { return v == nil }
			var keep, tw, dw []any
			for _, v := range img {
				if v == nil {
					keep = append(keep, v)
				}
			}
			i := 0
			for i < len(img) && img[i] == nil {
				tw = append(tw, img[i])
				i++
			}
			dw = append(dw, img[i:]...)
			for what, pair := range map[string][2]any{
				"Filter(" + name + ", is nil)":    {drain(seq.Filter(seq.Map(src(), toAny), isNil)), append([]any{}, keep...)},
				"TakeWhile(" + name + ", is nil)": {drain(seq.TakeWhile(seq.Map(src(), toAny), isNil)), append([]any{}, tw...)},
				"DropWhile(" + name + ", is nil)": {drain(seq.DropWhile(seq.Map(src(), toAny), isNil)), append([]any{}, dw...)},
				"Plus(" + name + ", the same)":    {drain(seq.Plus(seq.Map(src(), toAny), seq.Map(src(), toAny))), append(append([]any{}, img...), img...)},
				"Map(" + name + ", identity)":     {drain(seq.Map(seq.Map(src(), toAny), func(v any) any { return v })), img},
			} {
				if fmt.Sprint(pair[0]) != fmt.Sprint(pair[1]) {
					fail(what, pair[0], pair[1])
				}
			}
			var joined []any
			for _, x := range xs {
				joined = append(joined, toAny(x), toAny(x+1))
			}
			if joined == nil {
				joined = []any{}
			}
			if got := drain(seq.Join(src(), func(x int) seq.Seq[any] { return seq.Map(seq.FromSlice([]int{x, x + 1}), toAny) })); fmt.Sprint(got) != fmt.Sprint(joined) {
				fail(fmt.Sprintf("Join(FromSlice(%v), x -> Map([x x+1], nil if even))", xs), got, joined)
			}
			var seen []any
			seq.ForEach(seq.Map(src(), toAny), func(v any) error { seen = append(seen, v); return nil })
			if fmt.Sprint(seen) != fmt.Sprint(img) && len(xs) > 0 {
				fail("ForEach over "+name, seen, img)
			}
			c.r.States += len(xs) + 1
			c.r.Transitions += 8 * len(xs)
			if len(xs) >= 2 {
				c.r.Nontrivial++
			}
		}
	}}
}

func mkCasesFor(al alphabet, depth int, tag string) []caseDef {
	sub := al.level(depth - 1)
	var cs []caseDef
	cs = append(cs, caseDef{fmt.Sprintf("%s depth<=%d: all trees of depth <= %d", tag, depth, depth-1), func(c *checker, _ time.Time) {
		for _, n := range sub {
			c.eval(n)
		}
	}})
	for _, u := range al.unary {
		u := u
		cs = append(cs, caseDef{fmt.Sprintf("%s depth %d: root %s/%d", tag, depth, u.kind, u.i), func(c *checker, _ time.Time) {
			for _, a := range sub {
				n := u
				n.a = a
				c.eval(&n)
			}
		}})
	}
	for _, j := range al.joins {
		j := j
		cs = append(cs, caseDef{fmt.Sprintf("%s depth %d: root Join %s", tag, depth, joiners[j].name), func(c *checker, _ time.Time) {
			for _, a := range sub {
				c.eval(&node{kind: "join", i: j, a: a})
			}
		}})
	}
	const parts = 32
	for p := 0; p < parts; p++ {
		p := p
		cs = append(cs, caseDef{fmt.Sprintf("%s depth %d: root Plus, left operand #i with i mod %d = %d", tag, depth, parts, p), func(c *checker, deadline time.Time) {
			for i := p; i < len(sub); i += parts {
				for _, b := range sub {
					c.eval(&node{kind: "plus", a: sub[i], b: b})
				}
				if len(c.r.Viols) > 0 {
					return
				}
				if time.Now().After(deadline) {
					c.r.Exhaustive = false
					c.r.Note = "time budget reached"
					return
				}
			}
		}})
	}
	return cs
}

// deeperCases: every tree of depth `depth` becomes the operand of every unary / Join root once more, and of Plus
// with a leaf on either side (one more level, without squaring the number of trees).
func deeperCases(al alphabet, depth int, tag string) []caseDef {
	var cs []caseDef
	const parts = 64
	for p := 0; p < parts; p++ {
		p := p
		cs = append(cs, caseDef{fmt.Sprintf("%s depth %d: every root over operand #i of depth <= %d with i mod %d = %d", tag, depth+1, depth, parts, p), func(c *checker, deadline time.Time) {
			sub := al.level(depth)
			for i := p; i < len(sub); i += parts {
				a := sub[i]
				for _, u := range al.unary {
					n := u
					n.a = a
					c.evalLight(&n)
				}
				for _, j := range al.joins {
					c.evalLight(&node{kind: "join", i: j, a: a})
				}
				for li, l := range al.leaves {
					if li == 0 || li == 1 || li == 5 || len(al.leaves) <= 4 { // nil, [1], [1 2]
						c.evalLight(&node{kind: "plus", a: a, b: l})
						c.evalLight(&node{kind: "plus", a: l, b: a})
					}
				}
				if len(c.r.Viols) > 0 {
					return
				}
				if i%256 == p%256 && time.Now().After(deadline) {
					c.r.Exhaustive = false
					c.r.Note = "time budget reached"
					return
				}
			}
		}})
	}
	return cs
}

func main() {
	cache := map[string][]caseDef{}
	get := func(tier string) []caseDef {
		if cache[tier] == nil {
			cache[tier] = mkCases(tier)
		}
		return cache[tier]
	}
	drv.Main(drv.Property{
		ID: "C14", Level: "model_checking", PanicIsViolation: true, MemLimitGB: 12,
		Rule:        "every expression tree of depth <= 3 over the alphabet: leaves FromSlice(xs) for all xs over {1,2,3} of length <= 2 plus [1 2 3], [3 2 1], [1 3 2 4] and nil, From(1..3); TakeWhile/DropWhile/Filter x 5 predicates; Map x 3 functions; Plus; Join x 6 flat-map functions (nil, From(x), [x,x+1], nil-if-odd, [1..x], predicate-terminated TakeWhile for odd x / nil for even x); plus depth 4 in the form: every tree of depth <= 3 as the operand of every unary / Join root and of Plus with one of three leaves (nil, [1], [1 2]) on either side, checked by the drain and the source comparison without the error injection (the shape Plus(DropWhile(Plus(a,b),p),c) of seeded change C14-r2m1 lives there); every tree of depth <= 3 over a zero-value alphabet (From(0), [0], [0 1], [1 0], [0 0], nil, [1], From(1); every predicate; Map x-1 and x*2; flat-map functions returning From(x), From(x-1), From(0), [0] or nil): the zero value of the element type is an element like any other; thorough adds full depth 4 over a reduced alphabet (4 leaves, 7 unary, 3 joins) and its depth-5 extension of the same form. Each tree is rebuilt from fresh source slices (with sentinel-filled spare capacity) for every evaluation and driven as a state machine: at position i Value()==ref[i] and Next()==(i+1<len(ref)); nil iff the list is empty; ForEach with an error injected at every visit position; source slices and their spare capacity byte-identical afterwards. states = (tree, position) pairs, transitions = Next / visit steps; non-trivial = trees whose list has at least 2 elements",
		Assumptions: []string{"iterators are not shared between two trees; Next() is not called again after it returned false", "element values and functions outside the alphabet are not covered; random deeper trees are not sampled"},
		Cases: func(tier string) (int, func(int) string) {
			cs := get(tier)
			return len(cs), func(i int) string { return cs[i].name }
		},
		Run: func(tier string, i int, deadline time.Time) drv.Result {
			cs := get(tier)
			r := drv.Result{Case: cs[i].name, Exhaustive: true}
			c := &checker{r: &r}
			cs[i].run(c, deadline)
			r.Sample = map[string]any{"case": cs[i].name, "trees": r.Evaluations, "example_tree": exampleTree(tier, i)}
			return r
		},
		Extra: func(_ string, cov map[string]any) {
			cov["traces_validated_against_impl"] = cov["evaluations"]
			cov["explanation"] = "no separate model: every tree is evaluated on the real combinators; the reference is the list-function image"
		},
	})
}

func exampleTree(tier string, i int) string {
	al := fullAlphabet()
	sub := al.level(2)
	n := &node{kind: "plus", a: sub[(i*37)%len(sub)], b: sub[(i*101+7)%len(sub)]}
	_, ref := n.build(&env{})
	return strings.TrimSpace(fmt.Sprintf("%v = %v", n, ref))
}
