// C17 driver: Eq / Ord instances, ContraMap and Monoid constructors of pure,
// exhaustively over boundary alphabets (all pairs and triples).
package main

import (
	"errors"
	"fmt"
	"math"
	"time"

	"github.com/fogfish/golem/pure"
	"github.com/fogfish/golem/pure/eq"
	"github.com/fogfish/golem/pure/monoid"
	"github.com/fogfish/golem/pure/ord"
	"github.com/fogfish/golem/pure/semigroup"
	"verif/drv"
)

var ints = []int{math.MinInt, math.MinInt + 1, -2, -1, 0, 1, 2, math.MaxInt - 1, math.MaxInt}
var strs = sharedStorage([]string{"", "a", "ab", "abc", "b", "A", "é", "aé", "\x00", "a\x00", "ab\x00", "\xff", "a\xff", "\xfe", "\xc3", "\U0001F600", "\uFFFD"})

// sharedStorage adds, for one backing string, every prefix, every suffix and an equal copy in separate storage: a
// string and its own proper prefix start at the same address and differ, a copy starts elsewhere and is equal.
func sharedStorage(xs []string) []string {
	base := string([]byte("abcab")) // heap-allocated, not interned with the literals
	for i := 0; i <= len(base); i++ {
		xs = append(xs, base[:i], base[i:])
	}
	return append(xs, string([]byte(base)), string([]byte(base[:2])))
}

type rec struct {
	N int
	S string
}

type test struct {
	name string
	run  func(r *drv.Result)
}

func viol(r *drv.Result, sig, f string, a ...any) {
	if len(r.Viols) < 5 {
		r.Viols = append(r.Viols, drv.Viol{Sig: "C17/" + sig, Msg: fmt.Sprintf(f, a...), Replay: map[string]any{"case": r.Case}})
	}
}

func native[T int | string](a, b T) ord.Ordering {
	switch {
	case a < b:
		return ord.LT
	case a > b:
		return ord.GT
	}
	return ord.EQ
}

// laws checks an Eq/Ord pair against the built-in operators on an alphabet, all pairs and triples.
func laws[T int | string](r *drv.Result, name string, xs []T, e eq.Eq[T], o ord.Ord[T]) {
	for _, a := range xs {
		for _, b := range xs {
			r.Evaluations++
			if e.Equal(a, b) != (a == b) {
				viol(r, name+"/eq", "%s: Equal(%q, %q) = %v, == gives %v", name, fmt.Sprint(a), fmt.Sprint(b), e.Equal(a, b), a == b)
			}
			c := o.Compare(a, b)
			if c != native(a, b) {
				viol(r, name+"/ord", "%s: Compare(%q, %q) = %d, the built-in ordering gives %d", name, fmt.Sprint(a), fmt.Sprint(b), c, native(a, b))
			}
			if c != ord.LT && c != ord.EQ && c != ord.GT {
				viol(r, name+"/ord-range", "%s: Compare(%v, %v) = %d is none of LT, EQ, GT", name, a, b, c)
			}
			if (c == ord.EQ) != e.Equal(a, b) {
				viol(r, name+"/ord-eq", "%s: Compare(%v,%v)==EQ is %v but Equal is %v", name, a, b, c == ord.EQ, e.Equal(a, b))
			}
			if o.Compare(b, a) != -c {
				viol(r, name+"/antisym", "%s: Compare(%v,%v)=%d but Compare(%v,%v)=%d", name, a, b, c, b, a, o.Compare(b, a))
			}
			if e.Equal(a, b) != e.Equal(b, a) {
				viol(r, name+"/sym", "%s: Equal not symmetric on %v, %v", name, a, b)
			}
			for _, z := range xs {
				r.Evaluations++
				if e.Equal(a, b) && e.Equal(b, z) && !e.Equal(a, z) {
					viol(r, name+"/trans", "%s: Equal not transitive on %v, %v, %v", name, a, b, z)
				}
				if c != ord.GT && o.Compare(b, z) != ord.GT && o.Compare(a, z) == ord.GT {
					viol(r, name+"/trans", "%s: Compare not transitive on %v, %v, %v", name, a, b, z)
				}
			}
		}
		if !e.Equal(a, a) || o.Compare(a, a) != ord.EQ {
			viol(r, name+"/refl", "%s: not reflexive on %v", name, a)
		}
	}
}

var tests = []test{
	{"eq.Int/ord.Int all pairs and triples of boundary ints", func(r *drv.Result) { laws[int](r, "Int", ints, eq.Int, ord.Int) }},
	{"eq.String/ord.String all pairs and triples of boundary strings", func(r *drv.Result) { laws[string](r, "String", strs, eq.String, ord.String) }},
	{"From wrappers return exactly what the wrapped function returns, arguments in order", func(r *drv.Result) {
		// deliberately asymmetric functions expose swapped arguments
		fe := eq.From[int](func(a, b int) bool { return a == b+1 })
		fo := ord.From[int](func(a, b int) ord.Ordering {
			if a == 2*b {
				return ord.EQ
			}
			if a < 2*b {
				return ord.LT
			}
			return ord.GT
		})
		small := []int{-2, -1, 0, 1, 2, 3, 4}
		// a comparator in the style of cmp.Compare / strings.Compare may return any Ordering value: From hands it on as it is
		diff := ord.From[int](func(a, b int) ord.Ordering { return ord.Ordering(3*a - b) })
		for _, a := range small {
			for _, b := range small {
				r.Evaluations++
				if got := diff.Compare(a, b); got != ord.Ordering(3*a-b) {
					viol(r, "From/ord", "ord.From(f).Compare(%d,%d) = %d, f returns %d", a, b, got, 3*a-b)
				}
				if fe.Equal(a, b) != (a == b+1) {
					viol(r, "From/eq", "eq.From(f).Equal(%d,%d) = %v, f gives %v", a, b, fe.Equal(a, b), a == b+1)
				}
				want := ord.GT
				if a == 2*b {
					want = ord.EQ
				} else if a < 2*b {
					want = ord.LT
				}
				if fo.Compare(a, b) != want {
					viol(r, "From/ord", "ord.From(f).Compare(%d,%d) = %d, f gives %d", a, b, fo.Compare(a, b), want)
				}
			}
		}
	}},
	{"ContraMap gives the base instance's result on the projected values, in argument order", func(r *drv.Result) {
		recs := []rec{}
		for _, n := range []int{-1, 0, 1, 2, math.MaxInt, math.MinInt} {
			for _, s := range []string{"", "a", "ab", "b"} {
				recs = append(recs, rec{n, s})
			}
		}
		projN := pure.ContraMap[int, rec](func(x rec) int { return x.N })
		projS := pure.ContraMap[string, rec](func(x rec) string { return x.S })
		projL := pure.ContraMap[int, rec](func(x rec) int { return len(x.S) })
		projNeg := pure.ContraMap[int, rec](func(x rec) int { return -x.N })
		// asymmetric base instances: a swap of the arguments changes the answer
		asymE := eq.From[int](func(a, b int) bool { return a <= b })
		asymO := ord.From[int](func(a, b int) ord.Ordering { return native(a, 2*b) })
		type pe struct {
			name string
			e    eq.Eq[rec]
			want func(a, b rec) bool
		}
		for _, c := range []pe{
			{"eq.Int . N", eq.ContraMap[int, rec]{Eq: eq.Int, ContraMap: projN}, func(a, b rec) bool { return a.N == b.N }},
			{"eq.String . S", eq.ContraMap[string, rec]{Eq: eq.String, ContraMap: projS}, func(a, b rec) bool { return a.S == b.S }},
			{"eq.Int . len", eq.ContraMap[int, rec]{Eq: eq.Int, ContraMap: projL}, func(a, b rec) bool { return len(a.S) == len(b.S) }},
			{"(a<=b) . N", eq.ContraMap[int, rec]{Eq: asymE, ContraMap: projN}, func(a, b rec) bool { return a.N <= b.N }},
		} {
			for _, a := range recs {
				for _, b := range recs {
					r.Evaluations++
					if c.e.Equal(a, b) != c.want(a, b) {
						viol(r, "ContraMap/eq", "eq.ContraMap %s: Equal(%v,%v) = %v, base on projections gives %v", c.name, a, b, c.e.Equal(a, b), c.want(a, b))
					}
				}
			}
		}
		type po struct {
			name string
			o    ord.Ord[rec]
			want func(a, b rec) ord.Ordering
		}
		for _, c := range []po{
			{"ord.Int . N", ord.ContraMap[int, rec]{Ord: ord.Int, ContraMap: projN}, func(a, b rec) ord.Ordering { return native(a.N, b.N) }},
			{"ord.String . S", ord.ContraMap[string, rec]{Ord: ord.String, ContraMap: projS}, func(a, b rec) ord.Ordering { return native(a.S, b.S) }},
			{"ord.Int . -N", ord.ContraMap[int, rec]{Ord: ord.Int, ContraMap: projNeg}, func(a, b rec) ord.Ordering { return native(-a.N, -b.N) }},
			{"cmp(a,2b) . len", ord.ContraMap[int, rec]{Ord: asymO, ContraMap: projL}, func(a, b rec) ord.Ordering { return native(len(a.S), 2*len(b.S)) }},
		} {
			for _, a := range recs {
				for _, b := range recs {
					r.Evaluations++
					if c.o.Compare(a, b) != c.want(a, b) {
						viol(r, "ContraMap/ord", "ord.ContraMap %s: Compare(%v,%v) = %d, base on projections gives %d", c.name, a, b, c.o.Compare(a, b), c.want(a, b))
					}
				}
			}
		}
	}},
	{"monoid.From / FromOp / semigroup.From: Empty is the given element, Combine the given operation with its arguments in order", func(r *drv.Result) {
		sub := func(a, b int) int { return a - b }
		cat := func(a, b string) string { return a + "|" + b }
		mi := monoid.FromOp(42, sub)
		ms := monoid.FromOp("ε", cat)
		mf := monoid.From[int](-7, semigroup.From[int](sub))
		sg := semigroup.From[string](cat)
		// a monoid is a semigroup too: wrapping one with another empty element must use the given element
		mm := monoid.From[int](100, monoid.FromOp(0, sub))
		ms2 := monoid.From[string]("ω", monoid.FromOp("ε", cat))
		if mm.Empty() != 100 || ms2.Empty() != "ω" || mm.Combine(mm.Empty(), 1) != 99 || ms2.Combine("a", ms2.Empty()) != "a|ω" {
			viol(r, "monoid/from-monoid", "monoid.From(100, <monoid with empty 0>): Empty() = %v, From(\"ω\", <monoid with empty ε>): Empty() = %q; want the given elements 100 and ω", mm.Empty(), ms2.Empty())
		}
		if mi.Empty() != 42 || ms.Empty() != "ε" || mf.Empty() != -7 {
			viol(r, "monoid/empty", "Empty() = %v, %q, %v; want 42, ε, -7", mi.Empty(), ms.Empty(), mf.Empty())
		}
		for _, a := range ints {
			for _, b := range ints {
				r.Evaluations++
				if mi.Combine(a, b) != a-b || mf.Combine(a, b) != a-b {
					viol(r, "monoid/combine", "Combine(%d,%d) = %d / %d, the given operation (subtraction) gives %d", a, b, mi.Combine(a, b), mf.Combine(a, b), a-b)
				}
			}
		}
		for _, a := range strs {
			for _, b := range strs {
				r.Evaluations++
				if ms.Combine(a, b) != a+"|"+b || sg.Combine(a, b) != a+"|"+b {
					viol(r, "monoid/combine", "Combine(%q,%q) = %q / %q, want %q", a, b, ms.Combine(a, b), sg.Combine(a, b), a+"|"+b)
				}
			}
		}
	}},
	{"instances built from closures of one function literal, and over interface types with nil values, stay the instances they were given", func(r *drv.Result) {
		// many instances from ONE function literal with different captured values, all alive at once and used in
		// interleaved order: each is the operation it was given (a table keyed by the code of the function would mix them up)
		sepOp := func(sep string) func(a, b string) string { return func(a, b string) string { return a + sep + b } }
		addK := func(k int) func(a, b int) int { return func(a, b int) int { return a*k - b } }
		seps := []string{"|", ",", "", "-", "|"}
		var ms []monoid.Monoid[string]
		var sgs []semigroup.Semigroup[string]
		var mis, mfs []monoid.Monoid[int]
		var cmps []ord.Ord[int]
		var eqs []eq.Eq[int]
		for i, sp := range seps {
			ms = append(ms, monoid.FromOp("e", sepOp(sp)))
			sgs = append(sgs, semigroup.From[string](sepOp(sp)))
			mis = append(mis, monoid.FromOp(7, addK(i+2)))
			mfs = append(mfs, monoid.From[int](7, semigroup.From[int](addK(i+2))))
			k := i + 2
			cmps = append(cmps, ord.From[int](func(a, b int) ord.Ordering { return native(a, k*b) }))
			eqs = append(eqs, eq.From[int](func(a, b int) bool { return a == k*b }))
		}
		for round := 0; round < 2; round++ {
			for i := len(seps) - 1; i >= 0; i-- {
				k := i + 2
				for _, a := range []string{"", "a", "ab"} {
					for _, b := range []string{"", "b"} {
						r.Evaluations++
						if got, got2 := ms[i].Combine(a, b), sgs[i].Combine(a, b); got != a+seps[i]+b || got2 != a+seps[i]+b || ms[i].Empty() != "e" {
							viol(r, "closures/monoid", "instance %d of 5 built by monoid.FromOp / semigroup.From from closures of one function literal (separator %q): Combine(%q,%q) = %q / %q, want %q", i, seps[i], a, b, got, got2, a+seps[i]+b)
						}
					}
				}
				for _, a := range []int{-3, 0, 1, 2, 6} {
					for _, b := range []int{-1, 0, 1, 3} {
						r.Evaluations++
						if mis[i].Combine(a, b) != a*k-b || mfs[i].Combine(a, b) != a*k-b || mis[i].Empty() != 7 {
							viol(r, "closures/monoid", "instance %d (k=%d) of monoid.FromOp/From over closures of one literal: Combine(%d,%d) = %d / %d, want %d", i, k, a, b, mis[i].Combine(a, b), mfs[i].Combine(a, b), a*k-b)
						}
						if cmps[i].Compare(a, b) != native(a, k*b) || eqs[i].Equal(a, b) != (a == k*b) {
							viol(r, "closures/from", "instance %d (k=%d) of ord.From / eq.From over closures of one literal: Compare(%d,%d) = %d, Equal = %v; the wrapped functions give %d, %v", i, k, a, b, cmps[i].Compare(a, b), eqs[i].Equal(a, b), native(a, k*b), a == k*b)
						}
					}
				}
			}
		}
		// reference-typed carriers: Empty() is the given element itself - a nil map / slice / pointer stays nil, a given map is
		// that map (not a copy), an empty-but-not-nil slice stays non-nil
		mergeM := func(a, b map[string]int) map[string]int {
			out := map[string]int{}
			for k, v := range a {
				out[k] = v
			}
			for k, v := range b {
				out[k] += v
			}
			return out
		}
		given := map[string]int{"g": 1}
		for _, mk := range []func(e map[string]int) monoid.Monoid[map[string]int]{
			func(e map[string]int) monoid.Monoid[map[string]int] { return monoid.FromOp(e, mergeM) },
			func(e map[string]int) monoid.Monoid[map[string]int] {
				return monoid.From[map[string]int](e, semigroup.From[map[string]int](mergeM))
			},
		} {
			r.Evaluations++
			if e := mk(nil).Empty(); e != nil {
				viol(r, "monoid/reference-empty", "monoid over map[string]int built with a nil map as its empty element: Empty() returns a non-nil map %v", e)
			}
			mg := mk(given)
			e1 := mg.Empty()
			e1["probe"] = 7 // the given element is a reference: what Empty() hands out is that very map
			if given["probe"] != 7 || len(mg.Empty()) != len(given) {
				viol(r, "monoid/reference-empty", "monoid built with a given map as its empty element: Empty() is not that map (a write through it is not seen in the given map: %v vs %v)", given, e1)
			}
			delete(given, "probe")
		}
		catB := func(a, b []byte) []byte { return append(append([]byte{}, a...), b...) }
		if e := monoid.FromOp([]byte(nil), catB).Empty(); e != nil {
			viol(r, "monoid/reference-empty", "monoid over []byte with a nil empty element: Empty() returns a non-nil slice")
		}
		if e := monoid.FromOp([]byte{}, catB).Empty(); e == nil {
			viol(r, "monoid/reference-empty", "monoid over []byte with an empty, non-nil empty element: Empty() returns nil")
		}
		var np *int
		if e := monoid.FromOp(np, func(a, b *int) *int { return a }).Empty(); e != nil {
			viol(r, "monoid/reference-empty", "monoid over *int with a nil empty element: Empty() returns a non-nil pointer")
		}
		// ContraMap whose source type is an interface (error, fmt.Stringer, any) with nil among the values: the projection is
		// total on nil, and the result is the base instance on the projected values - nil is not special-cased
		text := func(e error) string {
			if e == nil {
				return "~" // sorts after every letter
			}
			return e.Error()
		}
		length := func(x any) int {
			if s, ok := x.(string); ok {
				return len(s)
			}
			return 5
		}
		errsv := []error{nil, errors.New("a"), errors.New("b"), errors.New("~"), errors.New("")}
		anys := []any{nil, "", "abc", "abcde", 7, "abcdefg"}
		desc := ord.From[string](func(a, b string) ord.Ordering { return native(b, a) })
		oe := ord.ContraMap[string, error]{Ord: ord.String, ContraMap: pure.ContraMap[string, error](text)}
		od := ord.ContraMap[string, error]{Ord: desc, ContraMap: pure.ContraMap[string, error](text)}
		ee := eq.ContraMap[string, error]{Eq: eq.String, ContraMap: pure.ContraMap[string, error](text)}
		oa := ord.ContraMap[int, any]{Ord: ord.Int, ContraMap: pure.ContraMap[int, any](length)}
		ea := eq.ContraMap[int, any]{Eq: eq.Int, ContraMap: pure.ContraMap[int, any](length)}
		for _, a := range errsv {
			for _, b := range errsv {
				r.Evaluations++
				if oe.Compare(a, b) != native(text(a), text(b)) || od.Compare(a, b) != native(text(b), text(a)) || ee.Equal(a, b) != (text(a) == text(b)) {
					viol(r, "ContraMap/interface", "ContraMap over error values (nil projected to \"~\"): Compare(%v,%v) = %d (descending base: %d), Equal = %v; the base instances on the projections give %d, %d, %v", a, b, oe.Compare(a, b), od.Compare(a, b), ee.Equal(a, b), native(text(a), text(b)), native(text(b), text(a)), text(a) == text(b))
				}
			}
		}
		for _, a := range anys {
			for _, b := range anys {
				r.Evaluations++
				if oa.Compare(a, b) != native(length(a), length(b)) || ea.Equal(a, b) != (length(a) == length(b)) {
					viol(r, "ContraMap/interface", "ContraMap over any values (nil and non-strings projected to 5): Compare(%v,%v) = %d, Equal = %v; the base instances on the projections give %d, %v", a, b, oa.Compare(a, b), ea.Equal(a, b), native(length(a), length(b)), length(a) == length(b))
				}
			}
		}
	}},
}

func main() {
	drv.Main(drv.Property{
		ID: "C17", Level: "exploration", PanicIsViolation: true, MemLimitGB: 4,
		Rule:        "exhaustive over fixed alphabets: 9 boundary ints (MinInt..MaxInt) and 13 strings (empty, prefixes, case, non-ASCII, NUL, 0xff) - all pairs and all triples for eq.Int/ord.Int/eq.String/ord.String against ==, <, >; From wrappers with deliberately asymmetric functions; ContraMap over 24 records with 4 projections and asymmetric base instances; monoid.From/FromOp/semigroup.From with subtraction and separator-concatenation; five instances of every constructor built from closures of one function literal, alive together and used in interleaved order; ContraMap over interface-typed sources (error, any) with nil among the values and a descending base order; one case per instance family, every case non-trivial (each contains argument pairs on which a swapped or dropped argument changes the answer)",
		Assumptions: []string{"values outside the alphabets are not covered (the instances are the Go operators on comparable/ordered types; the alphabets contain every boundary)"},
		Cases: func(string) (int, func(int) string) {
			return len(tests), func(i int) string { return tests[i].name }
		},
		Run: func(_ string, i int, _ time.Time) drv.Result {
			r := drv.Result{Case: tests[i].name, Exhaustive: true, Nontrivial: 1}
			tests[i].run(&r)
			r.Sample = map[string]any{"case": tests[i].name, "evaluations": r.Evaluations, "ints": ints, "strings": fmt.Sprintf("%q", strs)}
			return r
		},
	})
}
