module e2c17

go 1.24
