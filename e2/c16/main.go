// C16 driver: explicit-state BFS over all well-typed duct programs (From, Join,
// LiftF, WrapF, Unit, Yield over a small type universe) against a reference
// AST builder; every program is replayed on a fresh From (the combinators
// share and mutate one AST), visited with a recording visitor, and re-visited
// with a visitor that fails at every callback position.
package main

import (
	"errors"
	"fmt"
	"strings"
	"time"

	"github.com/fogfish/golem/duct"
	"verif/drv"
	"verif/objdump"
)

type X struct{ N int }
type Y string

// ---- reference builder ----

type rnode struct {
	kind   string // morphism seq map from yield
	ta, tb string
	open   bool
	kids   []*rnode
}

func (r *rnode) clone() *rnode {
	c := *r
	c.kids = nil
	for _, k := range r.kids {
		c.kids = append(c.kids, k.clone())
	}
	return &c
}

// innermost returns the innermost still-open context.
func (r *rnode) innermost() *rnode {
	cur := r
	for len(cur.kids) > 0 {
		last := cur.kids[len(cur.kids)-1]
		if last.kind != "seq" || !last.open {
			break
		}
		cur = last
	}
	return cur
}

func (r *rnode) apply(s step) {
	in := r.innermost()
	switch s.Name {
	case "Join":
		in.kids = append(in.kids, &rnode{kind: "map", ta: s.TA, tb: s.TB})
	case "Yield":
		in.kids = append(in.kids, &rnode{kind: "yield", ta: s.TA})
	case "LiftF":
		in.kids = append(in.kids, &rnode{kind: "seq", open: true, kids: []*rnode{{kind: "map", ta: s.TA, tb: s.TB}}})
	case "WrapF":
		in.kids = append(in.kids, &rnode{kind: "seq", open: true})
	case "Unit":
		if in != r {
			in.open = false
		}
	}
}

func (r *rnode) print(b *strings.Builder) {
	b.WriteString(r.kind)
	if r.kind == "seq" && r.open {
		b.WriteString("*")
	}
	if r.ta != "" || r.tb != "" {
		fmt.Fprintf(b, "<%s,%s>", r.ta, r.tb)
	}
	if len(r.kids) > 0 {
		b.WriteString("(")
		for i, k := range r.kids {
			if i > 0 {
				b.WriteString(" ")
			}
			k.print(b)
		}
		b.WriteString(")")
	}
}

func (r *rnode) String() string { var b strings.Builder; r.print(&b); return b.String() }

// trace is the expected callback sequence.
func (r *rnode) trace(depth int, out *[]string) {
	label := r.kind
	switch r.kind {
	case "map":
		label = fmt.Sprintf("map %s->%s", r.ta, r.tb)
	case "from", "yield":
		label = fmt.Sprintf("%s %s", r.kind, r.ta)
	case "morphism", "seq":
		label = fmt.Sprintf("%s/%d", r.kind, len(r.kids))
	}
	*out = append(*out, fmt.Sprintf("+%s@%d", label, depth))
	for _, k := range r.kids {
		k.trace(depth+1, out)
	}
	*out = append(*out, fmt.Sprintf("-%s@%d", label, depth))
}

// ---- recording / failing visitor ----

var errAt = errors.New("visitor failed here")

type recorder struct {
	trace  []string
	failAt int // index of the callback that fails, -1 = never
}

func (r *recorder) ev(s string) error {
	r.trace = append(r.trace, s)
	if len(r.trace)-1 == r.failAt {
		return errAt
	}
	return nil
}

func seqLabel(kind string, n duct.AstSeq, wantRoot bool) string {
	l := fmt.Sprintf("%s/%d", kind, len(n.Seq))
	if n.Root != wantRoot {
		l += fmt.Sprintf("[Root=%v]", n.Root)
	}
	return l
}

func (r *recorder) OnEnterMorphism(d int, n duct.AstSeq) error {
	return r.ev(fmt.Sprintf("+%s@%d", seqLabel("morphism", n, true), d))
}
func (r *recorder) OnLeaveMorphism(d int, n duct.AstSeq) error {
	return r.ev(fmt.Sprintf("-%s@%d", seqLabel("morphism", n, true), d))
}
func (r *recorder) OnEnterSeq(d int, n duct.AstSeq) error {
	return r.ev(fmt.Sprintf("+%s@%d", seqLabel("seq", n, false), d))
}
func (r *recorder) OnLeaveSeq(d int, n duct.AstSeq) error {
	return r.ev(fmt.Sprintf("-%s@%d", seqLabel("seq", n, false), d))
}
func (r *recorder) OnEnterMap(d int, n duct.AstMap) error {
	return r.ev(fmt.Sprintf("+map %s->%s@%d", n.TypeA, n.TypeB, d))
}
func (r *recorder) OnLeaveMap(d int, n duct.AstMap) error {
	return r.ev(fmt.Sprintf("-map %s->%s@%d", n.TypeA, n.TypeB, d))
}
func (r *recorder) OnEnterFrom(d int, n duct.AstFrom) error {
	return r.ev(fmt.Sprintf("+from %s@%d", n.Type, d))
}
func (r *recorder) OnLeaveFrom(d int, n duct.AstFrom) error {
	return r.ev(fmt.Sprintf("-from %s@%d", n.Type, d))
}
func (r *recorder) OnEnterYield(d int, n duct.AstYield) error {
	return r.ev(fmt.Sprintf("+yield %s@%d", n.Type, d))
}
func (r *recorder) OnLeaveYield(d int, n duct.AstYield) error {
	return r.ev(fmt.Sprintf("-yield %s@%d", n.Type, d))
}

// ---- programs ----

type program struct {
	src   int
	steps []int // indices into steps
}

func (p program) String() string {
	s := fmt.Sprintf("From[%s]", sources[p.src].A)
	for _, i := range p.steps {
		st := steps[i]
		switch st.Name {
		case "Join", "LiftF":
			s += fmt.Sprintf(" %s[->%s]", st.Name, st.To)
		default:
			s += " " + st.Name
		}
	}
	return s
}

// build replays the program on a fresh From; returns the boxed morphism, its static type and the reference tree.
func (p program) build() (any, string, *rnode) {
	src := sources[p.src]
	m := src.Build()
	ref := &rnode{kind: "morphism", open: true, kids: []*rnode{{kind: "from", ta: src.T}}}
	cur := src.A
	for _, i := range p.steps {
		st := steps[i]
		m = st.Apply(m)
		ref.apply(st)
		cur = st.To
	}
	return m, cur, ref
}

// check visits the built program and compares with the reference; then fails the visitor at every position.
func check(p program, r *drv.Result) string {
	m, cur, ref := p.build()
	src := sources[p.src]
	apply := appliers[src.A+"|"+cur]
	var want []string
	ref.trace(0, &want)
	rec := &recorder{failAt: -1}
	r.Evaluations++
	drv.Tick()
	if err := apply(m, rec); err != nil {
		return fmt.Sprintf("visit returned %v although no callback failed", err)
	}
	if strings.Join(rec.trace, " ") != strings.Join(want, " ") {
		return fmt.Sprintf("visit trace\n   got  %v\n   want %v\n   (reference tree %v)", rec.trace, want, ref)
	}
	// well-bracketed: enter/leave matched in stack order, depth = stack depth
	var stack []string
	for _, e := range rec.trace {
		at := strings.LastIndex(e, "@")
		var d int
		fmt.Sscanf(e[at+1:], "%d", &d)
		if e[0] == '+' {
			if d != len(stack) {
				return fmt.Sprintf("callback %s at depth %d while %d nodes are open (trace %v)", e, d, len(stack), rec.trace)
			}
			stack = append(stack, e[1:])
		} else {
			if len(stack) == 0 || stack[len(stack)-1] != e[1:] || d != len(stack)-1 {
				return fmt.Sprintf("leave callback %s does not match the innermost entered node (trace %v)", e, rec.trace)
			}
			stack = stack[:len(stack)-1]
		}
	}
	// the same program once more, this time visiting the intermediate result after every step before going on: a visit
	// reads the tree and leaves nothing behind, so every later visit still reports the program as built so far
	if len(p.steps) > 0 {
		m3 := src.Build()
		ref3 := &rnode{kind: "morphism", open: true, kids: []*rnode{{kind: "from", ta: src.T}}}
		cur3 := src.A
		for k := 0; ; k++ {
			var want3 []string
			ref3.trace(0, &want3)
			rec3 := &recorder{failAt: -1}
			r.Evaluations++
			if err := appliers[src.A+"|"+cur3](m3, rec3); err != nil {
				return fmt.Sprintf("visit after step %d returned %v although no callback failed", k, err)
			}
			if strings.Join(rec3.trace, " ") != strings.Join(want3, " ") {
				return fmt.Sprintf("the result was visited after each of its first %d steps and then again after step %d: that visit's trace\n   got  %v\n   want %v", max(k-1, 0), k, rec3.trace, want3)
			}
			if k == len(p.steps) {
				break
			}
			st := steps[p.steps[k]]
			m3 = st.Apply(m3)
			ref3.apply(st)
			cur3 = st.To
		}
	}
	for pos := range want {
		m2, _, _ := p.build()
		rec2 := &recorder{failAt: pos}
		r.Evaluations++
		drv.Tick()
		err := apply(m2, rec2)
		if err != errAt {
			return fmt.Sprintf("visitor failing at callback #%d (%s): Apply returned %v, want that very error", pos, want[pos], err)
		}
		if len(rec2.trace) != pos+1 {
			return fmt.Sprintf("visitor failing at callback #%d (%s): the visit went on, %d callbacks were made: %v", pos, want[pos], len(rec2.trace), rec2.trace)
		}
	}
	return ""
}

func bfs(src, first, depth int, deadline time.Time) drv.Result {
	res := drv.Result{Case: caseName(src, first, depth), Exhaustive: true}
	byFrom := map[string][]int{}
	for i, s := range steps {
		if s.A == sources[src].A {
			byFrom[s.From] = append(byFrom[s.From], i)
		}
	}
	type item struct {
		p   program
		cur string
	}
	seen := map[string]bool{}
	frontier := []item{{program{src: src}, sources[src].A}}
	if first >= 0 {
		frontier = []item{{program{src: src, steps: []int{first}}, steps[first].To}}
	}
	if msg := check(frontier[0].p, &res); msg != "" {
		res.Viols = append(res.Viols, drv.Viol{Sig: "C16/From", Msg: frontier[0].p.String() + ": " + msg, Replay: frontier[0].p.String()})
		return res
	}
	_, _, ref0 := frontier[0].p.build()
	seen[ref0.String()+"|"+frontier[0].cur] = true
	if first < 0 {
		depth = 0 // the bare From program only; longer programs belong to the per-first-step cases
	}
	maxNest := 0
	for len(frontier) > 0 {
		it := frontier[0]
		frontier = frontier[1:]
		if len(it.p.steps) == depth {
			continue
		}
		for _, si := range byFrom[it.cur] {
			np := program{src: src, steps: append(append([]int{}, it.p.steps...), si)}
			res.Transitions++
			if msg := check(np, &res); msg != "" {
				res.Viols = append(res.Viols, drv.Viol{Sig: "C16/" + steps[si].Name, Msg: np.String() + ": " + msg, Replay: np.String()})
				res.States = len(seen)
				return res
			}
			mm, cur, ref := np.build()
			// the state is the real object graph behind the morphism (hidden fields included) plus the
			// reference tree and the static type
			key := objdump.Dump(mm) + "|" + ref.String() + "|" + cur
			if !seen[key] {
				seen[key] = true
				frontier = append(frontier, item{np, cur})
				if n := strings.Count(key, "seq"); n > maxNest {
					maxNest = n
				}
			}
		}
		if time.Now().After(deadline) {
			res.Exhaustive = false
			res.Note = "time budget reached"
			break
		}
	}
	res.States = len(seen)
	res.Nontrivial = len(seen)
	res.Maxima = map[string]int{"max_nested_contexts_in_a_tree": maxNest}
	res.Sample = map[string]any{"case": res.Case, "max_steps": depth, "distinct_trees": len(seen), "programs_checked": res.Transitions + 1}
	return res
}

// caseList: one case per (source, first step) plus the bare From program per source.
func caseList() [][2]int {
	var cs [][2]int
	for si, src := range sources {
		cs = append(cs, [2]int{si, -1})
		for i, st := range steps {
			if st.A == src.A && st.From == src.A {
				cs = append(cs, [2]int{si, i})
			}
		}
	}
	return cs
}

func caseName(src, first, depth int) string {
	if first < 0 {
		return fmt.Sprintf("From[%s]", sources[src].A)
	}
	return fmt.Sprintf("programs %v ... up to %d steps", program{src: src, steps: []int{first}}, depth)
}

func main() {
	depth := func(tier string) int {
		if tier == "thorough" {
			return 6
		}
		return 5
	}
	drv.Main(drv.Property{
		ID: "C16", Level: "model_checking", PanicIsViolation: true,
		Rule:        "explicit-state BFS: a state is (the complete object graph behind the real morphism obtained by reflection, printed reference tree with node kinds, recorded type names and open/closed flags; current static type); from From[A] with A in {X, []X, [][]X}, every well-typed step (Join to any of 8 types, LiftF to any of 8 types, WrapF, Unit, Yield) over the universe {X, []X, [][]X, [][][]X, Y, []Y, Void, []Void} is applied, up to 5 (6 in thorough) steps, nesting up to 3; each program is replayed on a fresh From (each intermediate morphism used once), visited with a recording visitor (trace must equal the reference builder's trace incl. depths, type names = duct.TypeOf of the step's type parameters, Root flags, child counts; enter/leave well-bracketed), and re-visited with a visitor failing at every callback position (that very error returned, no further callback); non-trivial = distinct trees reached",
		Assumptions: []string{"the reference builder (tree + innermost-open-context rule) encodes the statement", "type universe limited to 8 element types; generics are instantiated statically by a generated table (e2/c16/reg_gen.go)"},
		Cases: func(tier string) (int, func(int) string) {
			cs := caseList()
			return len(cs), func(i int) string { return caseName(cs[i][0], cs[i][1], depth(tier)) }
		},
		Run: func(tier string, i int, deadline time.Time) drv.Result {
			cs := caseList()
			return bfs(cs[i][0], cs[i][1], depth(tier), deadline)
		},
		Extra: func(_ string, cov map[string]any) {
			cov["traces_validated_against_impl"] = cov["transitions"]
			cov["explanation"] = "every program is executed on the real duct combinators and its visit compared with the reference builder's trace"
		},
	})
}
