module e2c16

go 1.24
