#!/usr/bin/env python3
"""validate MANIFEST.json and every evidence file against the schemas (run with python3-vt)"""
import json, sys, glob, jsonschema
ok = True
m = json.load(open('/verif/MANIFEST.json'))
jsonschema.validate(m, json.load(open('/root/.vp/MANIFEST.schema.json')))
es = json.load(open('/root/.vp/EVIDENCE.schema.json'))
for c in m['checks']:
    try:
        e = json.load(open(c['evidence_file']))
        jsonschema.validate(e, es)
        assert e['property_id'] == c['property_id']
        assert e['level'] == c['level_claimed']['category'], (e['level'], c['level_claimed']['category'])
        print(c['property_id'], 'ok', e['tier'], e['coverage'].get('states'), e['coverage'].get('evaluations'), 'exh', e['coverage'].get('exhaustive'), 'viol', e.get('violations'))
    except Exception as x:
        ok = False
        print(c['property_id'], 'INVALID', str(x)[:300])
props = [json.loads(l)['id'] for l in open('/verif/properties.jsonl')]
claimed = {c['property_id'] for c in m['checks']}
na = {x['property_id'] for x in m.get('not_applicable', [])}
for p in props:
    if p not in claimed and p not in na:
        print(p, 'neither claimed nor not_applicable'); ok = False
sys.exit(0 if ok else 1)
