// Package drv is the common frame of every check driver: it enumerates the
// cases (configurations) of a property, runs them in worker sub-processes,
// merges the counts, matches violations against known_findings.json, writes
// the evidence file and replay files, and produces the exit code / VIOLATION
// lines of the MANIFEST contract.
//
//	driver -prop C08 -tier quick            master: spawn workers, write evidence
//	driver -prop C08 -worker                worker: case indices on stdin, JSON results on stdout
//	driver -prop C08 -replay file.json      re-execute one recorded violation
package drv

import (
	"bufio"
	"encoding/json"
	"flag"
	"fmt"
	"os"
	"os/exec"
	"path/filepath"
	"regexp"
	"runtime"
	"runtime/debug"
	"runtime/pprof"
	"sort"
	"strconv"
	"strings"
	"sync"
	"sync/atomic"
	"syscall"
	"time"
)

// Viol is one violation found in a case.
type Viol struct {
	Sig    string `json:"sig"`    // stable signature (stage / input class / oracle), matched against known findings
	Msg    string `json:"msg"`    // human readable
	Replay any    `json:"replay"` // whatever the driver needs to re-execute it (schedule, op list, ...)
	Trace  string `json:"trace,omitempty"`
}

// Result is what running one case produced.
type Result struct {
	Index       int            `json:"index"`
	Case        string         `json:"case"`
	States      int            `json:"states"`
	Transitions int            `json:"transitions"`
	Evaluations int            `json:"evaluations"` // executions / inputs / programs run
	Outcomes    int            `json:"outcomes"`    // distinct terminal outcomes observed
	Nontrivial  int            `json:"nontrivial"`  // distinct non-trivial cases counted by the driver's rule
	Exhaustive  bool           `json:"exhaustive"`
	Note        string         `json:"note,omitempty"`
	Counters    map[string]int `json:"counters,omitempty"` // summed over cases
	Maxima      map[string]int `json:"maxima,omitempty"`   // max over cases
	Sample      any            `json:"sample,omitempty"`
	Viols       []Viol         `json:"viols,omitempty"`
	WallMs      int64          `json:"wall_ms"`
	Crashed     bool           `json:"crashed,omitempty"`
	Hung        bool           `json:"hung,omitempty"` // written by the worker's watchdog; the worker process has ended
}

// Tick is called by the drivers whenever an evaluation (one execution, one tree, one program, one transition) has
// completed. The worker's watchdog looks at processor time, never at the clock: if the process burns more than
// hangCPU seconds of CPU while not a single evaluation completes, a call into the code under test is not
// returning (on the unchanged tree an evaluation takes micro- to milliseconds). That is a statement about the
// amount of computation, independent of how loaded the machine is.
func Tick() { beat.Add(1) }

var (
	beat     atomic.Int64
	curCase  atomic.Value // string
	curIndex atomic.Int64
)

const hangCPU = 120 * time.Second

func cpuTime() time.Duration {
	var ru syscall.Rusage
	if syscall.Getrusage(syscall.RUSAGE_SELF, &ru) != nil {
		return 0
	}
	return time.Duration(ru.Utime.Nano() + ru.Stime.Nano())
}

func watchdog(p *Property, out *bufio.Writer, mu *sync.Mutex) {
	last, at := beat.Load(), cpuTime()
	for {
		time.Sleep(500 * time.Millisecond)
		b, c := beat.Load(), cpuTime()
		if b != last {
			last, at = b, c
			continue
		}
		if c-at < hangCPU {
			continue
		}
		name, _ := curCase.Load().(string)
		r := Result{Index: int(curIndex.Load()), Case: name, Hung: true, Exhaustive: false,
			Viols: []Viol{{Sig: p.ID + "/nontermination", Msg: fmt.Sprintf("a call into the code under test does not return: the process has used %d s of processor time without completing a single evaluation (an evaluation normally takes micro- to milliseconds); case %s", int(hangCPU.Seconds()), name), Replay: map[string]any{"case": name}}}}
		mu.Lock()
		json.NewEncoder(out).Encode(r)
		out.Flush()
		os.Exit(0)
	}
}

// Property describes one check.
type Property struct {
	ID          string
	Level       string // evidence level: model_checking | exploration
	Rule        string // how cases are enumerated and what counts as non-trivial
	Assumptions []string
	// Cases returns the number of cases of the tier and a printable name of case i.
	Cases func(tier string) (n int, name func(i int) string)
	// Run executes case i (deadline: stop exploring and report Exhaustive=false).
	Run func(tier string, i int, deadline time.Time) Result
	// Replay re-executes a recorded violation of case i and returns a trace and the oracle's verdict.
	Replay func(tier string, i int, replay json.RawMessage) (trace string, verdict string, err error)
	// PanicIsViolation: a Go panic escaping Run comes from the code under test (sequential E2 drivers call
	// it directly) and is reported as a violation of the running case instead of an internal error.
	PanicIsViolation bool
	// CrashIsViolation: a worker that dies on a case is a violation of that case (unsafe code under test).
	CrashIsViolation bool
	// Extra adds property-specific keys to coverage after the merge (e.g. validation counts).
	Extra func(tier string, cov map[string]any)
	// MemLimitGB > 0 limits the address space of each worker process (sequential drivers on tiny inputs); exhausting
	// it is reported as runaway allocation by the code under test.
	MemLimitGB int
	// CaseBudget is the wall-clock budget per case (default: quick 60 s, thorough 20 min).
	CaseBudget func(tier string) time.Duration
}

type finding struct {
	Property  string `json:"property"`
	Status    string `json:"status"` // open | fixed
	Signature string `json:"signature"`
	What      string `json:"what"`
	Commit    string `json:"commit,omitempty"`
}

func verifDir() string {
	if d := os.Getenv("VERIF_DIR"); d != "" {
		return d
	}
	return "/verif"
}

func loadFindings(prop string) []finding {
	var f struct {
		Findings []finding `json:"findings"`
	}
	b, err := os.ReadFile(filepath.Join(verifDir(), "known_findings.json"))
	if err != nil {
		return nil
	}
	if err := json.Unmarshal(b, &f); err != nil {
		fmt.Fprintln(os.Stderr, "known_findings.json:", err)
		os.Exit(2)
	}
	var out []finding
	for _, x := range f.Findings {
		if x.Property == prop && x.Status == "open" {
			out = append(out, x)
		}
	}
	return out
}

// Main is the entry point of a driver binary serving the given properties.
func Main(props ...Property) {
	var (
		prop    = flag.String("prop", "", "property id")
		tier    = flag.String("tier", "quick", "quick | thorough")
		worker  = flag.Bool("worker", false, "worker mode")
		replay  = flag.String("replay", "", "replay file")
		only    = flag.String("only", "", "substring filter on case names (debugging)")
		list    = flag.Bool("list", false, "list cases")
		procs   = flag.Int("procs", 0, "worker processes (default: number of CPUs)")
		noEvid  = flag.Bool("no-evidence", false, "do not write the evidence file (debugging)")
		verbose = flag.Bool("v", false, "print per-case results")
		one     = flag.Int("one", -1, "run this single case in-process (profiling / debugging)")
		prof    = flag.String("cpuprofile", "", "write a CPU profile (with -one)")
	)
	flag.Parse()
	var p *Property
	for i := range props {
		if props[i].ID == *prop {
			p = &props[i]
		}
	}
	if *replay != "" {
		os.Exit(doReplay(props, *replay))
	}
	if p == nil {
		fmt.Fprintf(os.Stderr, "unknown property %q\n", *prop)
		os.Exit(2)
	}
	if t := os.Getenv("VERIF_TIER"); t != "" && !isFlagSet("tier") {
		*tier = t
	}
	if *tier != "quick" && *tier != "thorough" {
		fmt.Fprintln(os.Stderr, "tier must be quick or thorough")
		os.Exit(2)
	}
	n, name := p.Cases(*tier)
	if *list {
		for i := 0; i < n; i++ {
			fmt.Println(i, name(i))
		}
		return
	}
	budget := func() time.Duration {
		if p.CaseBudget != nil {
			return p.CaseBudget(*tier)
		}
		if *tier == "quick" {
			return 60 * time.Second
		}
		return 20 * time.Minute
	}
	if *worker {
		runWorker(p, *tier, budget())
		return
	}
	if *one >= 0 {
		if *prof != "" {
			f, _ := os.Create(*prof)
			pprof.StartCPUProfile(f)
			defer pprof.StopCPUProfile()
		}
		t0 := time.Now()
		r := runCase(p, *tier, *one, t0.Add(budget()))
		r.Sample, r.Counters = nil, nil
		b, _ := json.Marshal(r)
		fmt.Printf("%s\n%.2fs\n", b, time.Since(t0).Seconds())
		return
	}
	os.Exit(master(p, *tier, n, name, *only, *procs, *noEvid, *verbose))
}

func isFlagSet(name string) bool {
	set := false
	flag.Visit(func(f *flag.Flag) {
		if f.Name == name {
			set = true
		}
	})
	return set
}

func runWorker(p *Property, tier string, budget time.Duration) {
	if p.MemLimitGB > 0 && os.Getenv("VERIF_NO_MEMLIMIT") == "" {
		// bounds the address space of the worker: code under test that allocates without end (a printing loop that
		// never advances, a structure that grows for ever) must end the worker, not the machine
		lim := syscall.Rlimit{Cur: uint64(p.MemLimitGB) << 30, Max: uint64(p.MemLimitGB) << 30}
		syscall.Setrlimit(syscall.RLIMIT_AS, &lim)
	}
	in := bufio.NewScanner(os.Stdin)
	out := bufio.NewWriter(os.Stdout)
	enc := json.NewEncoder(out)
	var omu sync.Mutex
	_, name := p.Cases(tier)
	curCase.Store("")
	go watchdog(p, out, &omu)
	for in.Scan() {
		i, err := strconv.Atoi(strings.TrimSpace(in.Text()))
		if err != nil {
			continue
		}
		t0 := time.Now()
		curCase.Store(name(i))
		curIndex.Store(int64(i))
		Tick()
		r := runCase(p, tier, i, t0.Add(budget))
		Tick()
		r.Index = i
		r.WallMs = time.Since(t0).Milliseconds()
		omu.Lock()
		enc.Encode(r)
		out.Flush()
		omu.Unlock()
	}
}

func runCase(p *Property, tier string, i int, deadline time.Time) (r Result) {
	if p.PanicIsViolation {
		defer func() {
			if e := recover(); e != nil {
				_, name := p.Cases(tier)
				stack := string(debug.Stack())
				if len(stack) > 3000 {
					stack = stack[:3000]
				}
				r = Result{Case: name(i), Viols: []Viol{{Sig: p.ID + "/panic", Msg: fmt.Sprintf("panic in the code under test: %v\n%s", e, stack), Replay: map[string]any{"case": name(i)}}}}
			}
		}()
	}
	return p.Run(tier, i, deadline)
}

func master(p *Property, tier string, n int, name func(int) string, only string, procs int, noEvid, verbose bool) int {
	t0 := time.Now()
	var idx []int
	for i := 0; i < n; i++ {
		if only == "" || strings.Contains(name(i), only) {
			idx = append(idx, i)
		}
	}
	if procs <= 0 {
		procs = runtime.NumCPU()
	}
	if procs > len(idx) {
		procs = len(idx)
	}
	if procs < 1 {
		procs = 1
	}
	var (
		mu      sync.Mutex
		next    int
		results []Result
		wg      sync.WaitGroup
		fatal   string
		hung    int
		nviol   int
		capped  bool
	)
	noOpenFindings := len(loadFindings(p.ID)) == 0 // with open findings every violation must be seen to be matched
	wallCap := 25 * time.Minute
	if tier == "thorough" {
		wallCap = 8 * time.Hour
	}
	take := func() (int, bool) {
		mu.Lock()
		defer mu.Unlock()
		if since := time.Since(t0); (since > wallCap) || (nviol > 0 && noOpenFindings && since > 3*time.Minute) {
			// the whole check has a wall-clock cap (it only ends the enumeration early: what was not run is reported as
			// not run, exhaustive=false), and once a violation is known nothing is gained by grinding through every
			// remaining case of a tree on which each case runs into its budget
			capped = true
			return 0, false
		}
		if next >= len(idx) || fatal != "" || hung >= 3 {
			// three cases in which the code under test does not return are enough: every further one would cost
			// another two minutes of processor time
			return 0, false
		}
		next++
		return idx[next-1], true
	}
	self, _ := os.Executable()
	for w := 0; w < procs; w++ {
		wg.Add(1)
		go func() {
			defer wg.Done()
			for {
				// one worker process serves many cases; it is restarted after a crash
				cmd := exec.Command(self, "-prop", p.ID, "-tier", tier, "-worker")
				cmd.Env = append(os.Environ(), "GOMAXPROCS=1")
				stdin, _ := cmd.StdinPipe()
				stdout, _ := cmd.StdoutPipe()
				var errb strings.Builder
				cmd.Stderr = &errb
				if err := cmd.Start(); err != nil {
					mu.Lock()
					fatal = "cannot start worker: " + err.Error()
					mu.Unlock()
					return
				}
				rd := bufio.NewReaderSize(stdout, 1<<20)
				crashed := false
				for {
					i, ok := take()
					if !ok {
						stdin.Close()
						cmd.Wait()
						return
					}
					fmt.Fprintln(stdin, i)
					line, err := rd.ReadBytes('\n')
					var r Result
					if err == nil {
						err = json.Unmarshal(line, &r)
					}
					if err != nil {
						stdin.Close()
						cmd.Wait()
						tail := errb.String()
						whole := tail
						if len(tail) > 1500 {
							tail = tail[len(tail)-1500:]
						}
						r = Result{Index: i, Case: name(i), Crashed: true, Note: "worker died: " + tail}
						crashed = true
						if strings.Contains(whole, "fatal error: stack overflow") && libFrames(whole) >= 10 {
							// unbounded recursion inside the code under test (a visit over a structure that contains itself, a
							// self-call that never bottoms out): the Go runtime ends the process, which cannot be recovered from
							r.Crashed = false
							r.Viols = []Viol{{Sig: p.ID + "/runaway-recursion", Msg: fmt.Sprintf("a call into the code under test recursed until the goroutine stack limit was reached (fatal error: stack overflow) in case %s; innermost frames:\n%s", name(i), firstFrames(whole, 12)), Replay: map[string]any{"case": name(i)}}}
						}
						if p.MemLimitGB > 0 && (strings.Contains(whole, "out of memory") || strings.Contains(whole, "cannot allocate memory")) {
							// the driver calls the code under test directly on tiny inputs: exhausting 24 GB there is runaway allocation
							r.Crashed = false
							r.Viols = []Viol{{Sig: p.ID + "/runaway-allocation", Msg: fmt.Sprintf("the code under test allocated memory without bound (the worker process reached its limit of %d GB) in case %s", p.MemLimitGB, name(i)), Replay: map[string]any{"case": name(i)}}}
						}
					}
					mu.Lock()
					results = append(results, r)
					nviol += len(r.Viols)
					if r.Hung {
						hung++
					}
					mu.Unlock()
					if r.Hung {
						// the worker's watchdog reported a call that does not return and ended the process
						stdin.Close()
						cmd.Process.Kill()
						cmd.Wait()
						break
					}
					if crashed {
						break
					}
				}
			}
		}()
	}
	wg.Wait()
	if fatal != "" {
		fmt.Fprintln(os.Stderr, "INTERNAL:", fatal)
		return 2
	}
	sort.Slice(results, func(i, j int) bool { return results[i].Index < results[j].Index })

	// merge
	cov := map[string]any{}
	var states, trans, evals, nontriv, outcomes, crashedN int
	exhaustive := true
	counters := map[string]int{}
	maxima := map[string]int{}
	var samples []any
	var viols []struct {
		r Result
		v Viol
	}
	var incomplete []string
	slowest := Result{}
	if len(results) < len(idx) {
		exhaustive = false
		why := "after three cases in which the code under test did not return"
		if capped {
			why = "because the check reached its wall-clock cap, or a violation was already known and three minutes had passed"
		}
		incomplete = append(incomplete, fmt.Sprintf("%d cases were not run %s", len(idx)-len(results), why))
	}
	for _, r := range results {
		states += r.States
		trans += r.Transitions
		evals += r.Evaluations
		nontriv += r.Nontrivial
		outcomes += r.Outcomes
		if !r.Exhaustive && !r.Crashed {
			exhaustive = false
			if len(incomplete) < 20 {
				incomplete = append(incomplete, r.Case+": "+r.Note)
			}
		}
		for k, v := range r.Counters {
			counters[k] += v
		}
		for k, v := range r.Maxima {
			if v > maxima[k] {
				maxima[k] = v
			}
		}
		if r.Sample != nil && len(samples) < 6 && r.Nontrivial > 0 && r.Index >= len(samples)*len(results)/6 {
			samples = append(samples, r.Sample)
		}
		if r.WallMs > slowest.WallMs {
			slowest = r
		}
		if r.Crashed {
			crashedN++
			if p.CrashIsViolation {
				viols = append(viols, struct {
					r Result
					v Viol
				}{r, Viol{Sig: p.ID + "/crash/" + r.Case, Msg: "worker process died while running this case: " + r.Note, Replay: map[string]any{"crash": true}}})
			}
		}
		for _, v := range r.Viols {
			viols = append(viols, struct {
				r Result
				v Viol
			}{r, v})
		}
		if verbose {
			fmt.Printf("  case %d %s: states=%d transitions=%d evals=%d outcomes=%d exhaustive=%v viols=%d %dms %s\n", r.Index, r.Case, r.States, r.Transitions, r.Evaluations, r.Outcomes, r.Exhaustive, len(r.Viols), r.WallMs, r.Note)
		}
	}
	if crashedN > 0 && !p.CrashIsViolation {
		for _, r := range results {
			if r.Crashed {
				fmt.Fprintf(os.Stderr, "INTERNAL: worker crashed on case %d %s: %s\n", r.Index, r.Case, r.Note)
			}
		}
		return 2
	}

	// classify violations against the known-findings file
	known := loadFindings(p.ID)
	kre := make([]*regexp.Regexp, len(known))
	for i, k := range known {
		kre[i] = regexp.MustCompile(k.Signature)
	}
	knownHit := map[int]int{}
	knownExample := map[int]string{}
	type rep struct {
		Property string `json:"property"`
		Tier     string `json:"tier"`
		Case     string `json:"case"`
		Index    int    `json:"index"`
		Sig      string `json:"sig"`
		Msg      string `json:"msg"`
		Replay   any    `json:"replay"`
		Trace    string `json:"trace,omitempty"`
	}
	var unlisted []rep
	seenSig := map[string]bool{}
	for _, vv := range viols {
		matched := false
		for i, re := range kre {
			if re.MatchString(vv.v.Sig) {
				knownHit[i]++
				if knownExample[i] == "" {
					knownExample[i] = vv.r.Case + ": " + vv.v.Msg
				}
				matched = true
				break
			}
		}
		if matched {
			continue
		}
		if seenSig[vv.v.Sig] && len(unlisted) >= 3 {
			continue // one replay per signature is enough once a few are out
		}
		seenSig[vv.v.Sig] = true
		if len(unlisted) < 25 {
			unlisted = append(unlisted, rep{p.ID, tier, vv.r.Case, vv.r.Index, vv.v.Sig, vv.v.Msg, vv.v.Replay, vv.v.Trace})
		}
	}

	cov["states"] = states
	cov["transitions"] = trans
	cov["evaluations"] = evals
	cov["distinct_nontrivial"] = nontriv
	cov["distinct_outcomes"] = outcomes
	cov["cases"] = len(results)
	cov["rule"] = p.Rule
	cov["exhaustive"] = exhaustive
	if len(incomplete) > 0 {
		cov["incomplete_cases"] = incomplete
	}
	if len(samples) == 0 {
		samples = append(samples, "no sample recorded")
	}
	cov["samples"] = samples
	if len(counters) > 0 {
		cov["counters"] = counters
	}
	if len(maxima) > 0 {
		cov["maxima"] = maxima
	}
	cov["slowest_case"] = fmt.Sprintf("%s (%d ms)", slowest.Case, slowest.WallMs)
	cov["traces_validated_against_impl"] = 0
	if p.Extra != nil {
		p.Extra(tier, cov)
	}
	if len(known) > 0 {
		var kf []string
		for i, k := range known {
			kf = append(kf, fmt.Sprintf("%s: %d occurrences", k.Signature, knownHit[i]))
		}
		cov["known_findings_matched"] = kf
	}
	seed, _ := strconv.Atoi(os.Getenv("VERIF_SEED"))
	ev := map[string]any{
		"property_id": p.ID,
		"tier":        tier,
		"seed":        seed,
		"level":       p.Level,
		"coverage":    cov,
		"assumptions": p.Assumptions,
		"wall_s":      float64(int(time.Since(t0).Seconds()*100)) / 100,
		"violations":  len(unlisted),
	}
	evdir := filepath.Join(verifDir(), "evidence")
	if d := os.Getenv("VERIF_EVID_DIR"); d != "" {
		evdir = d // a secondary pass of the same check (another target architecture) keeps its files apart
	}
	if noEvid {
		// debugging / seeded-change runs: keep the committed evidence directory untouched
		evdir = filepath.Join(verifDir(), ".work", "no-evidence")
	}
	if old, _ := filepath.Glob(filepath.Join(evdir, "replays", p.ID+"-*.json")); !noEvid {
		for _, f := range old {
			os.Remove(f)
		}
	}
	if !noEvid {
		os.MkdirAll(filepath.Join(evdir, "replays"), 0o755)
		b, _ := json.MarshalIndent(ev, "", " ")
		if err := os.WriteFile(filepath.Join(evdir, p.ID+".json"), append(b, '\n'), 0o644); err != nil {
			fmt.Fprintln(os.Stderr, "INTERNAL: cannot write evidence:", err)
			return 2
		}
	}
	fmt.Printf("%s %s: cases=%d states=%d transitions=%d evaluations=%d nontrivial=%d outcomes=%d exhaustive=%v wall=%.1fs\n",
		p.ID, tier, len(results), states, trans, evals, nontriv, outcomes, exhaustive, time.Since(t0).Seconds())
	for i, k := range known {
		if knownHit[i] > 0 {
			fmt.Printf("KNOWN-FINDING: property=%s %s (%d occurrences, e.g. %s)\n", p.ID, k.What, knownHit[i], knownExample[i])
		}
	}
	if len(unlisted) == 0 {
		return 0
	}
	for i, u := range unlisted {
		path := filepath.Join(evdir, "replays", fmt.Sprintf("%s-%d.json", p.ID, i))
		b, _ := json.MarshalIndent(u, "", " ")
		os.MkdirAll(filepath.Dir(path), 0o755)
		os.WriteFile(path, append(b, '\n'), 0o644)
		fmt.Printf("VIOLATION property=%s replay=%s\n", p.ID, path)
		msg := u.Msg
		if len(msg) > 1600 {
			msg = msg[:1600] + " ... (the complete message is in the replay file)"
		}
		fmt.Printf("  case %s\n  %s\n", u.Case, msg)
	}
	return 1
}

// libFrames counts the stack frames of a crash dump that belong to the library under test (not to the drivers, which
// live in packages named verif...).
func libFrames(dump string) int {
	n := 0
	for _, l := range strings.Split(dump, "\n") {
		if strings.HasPrefix(l, "github.com/fogfish/golem/") && !strings.HasPrefix(l, "github.com/fogfish/golem/verif") {
			n++
		}
	}
	return n
}

func firstFrames(dump string, k int) string {
	var out []string
	for _, l := range strings.Split(dump, "\n") {
		if len(out) < k && !strings.HasPrefix(l, "\t") && strings.Contains(l, "(") && strings.Contains(l, ".") && !strings.HasPrefix(l, "runtime") {
			if len(l) > 160 {
				l = l[:160]
			}
			out = append(out, "   "+l)
		}
	}
	return strings.Join(out, "\n")
}

func doReplay(props []Property, path string) int {
	b, err := os.ReadFile(path)
	if err != nil {
		fmt.Fprintln(os.Stderr, err)
		return 2
	}
	var r struct {
		Property string          `json:"property"`
		Tier     string          `json:"tier"`
		Case     string          `json:"case"`
		Index    int             `json:"index"`
		Msg      string          `json:"msg"`
		Replay   json.RawMessage `json:"replay"`
	}
	if err := json.Unmarshal(b, &r); err != nil {
		fmt.Fprintln(os.Stderr, err)
		return 2
	}
	for i := range props {
		p := &props[i]
		if p.ID != r.Property {
			continue
		}
		if p.Replay == nil {
			fmt.Fprintln(os.Stderr, "this driver has no replay function; re-run the check with -only", r.Case)
			return 2
		}
		_, name := p.Cases(r.Tier)
		if name(r.Index) != r.Case {
			fmt.Fprintf(os.Stderr, "case %d is now %q, recorded %q: the case enumeration changed\n", r.Index, name(r.Index), r.Case)
			return 2
		}
		trace, verdict, err := p.Replay(r.Tier, r.Index, r.Replay)
		fmt.Print(trace)
		if err != nil {
			fmt.Fprintln(os.Stderr, "INTERNAL:", err)
			return 2
		}
		if verdict == "" {
			fmt.Println("replay: oracle satisfied (the violation does not reproduce on this tree)")
			return 0
		}
		fmt.Printf("VIOLATION property=%s replay=%s\n  %s\n", r.Property, path, verdict)
		return 1
	}
	fmt.Fprintln(os.Stderr, "property of the replay file is not served by this driver:", r.Property)
	return 2
}
