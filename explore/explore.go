// Package explore is the stateless model checker used on the translated code:
// depth-first search over all schedules by re-execution, with state caching
// (visited-state pruning) and an optional preemption bound.
package explore

import (
	"fmt"
	"strings"
	"time"

	"verif/rt"
)

type point struct {
	n      int
	cost   []int
	chosen int
	used   int // preemptions used before this point
}

// Explorer explores every execution of Root.
type Explorer struct {
	Bound    int  // max preemptions; <0 = unbounded
	Cache    bool // prune on already-visited states
	Root     func()
	Cfg      func(*rt.Exec)
	Check    func(x *rt.Exec) string // oracle on a terminal state: "" = ok
	Outcome  func(x *rt.Exec) string // canonical description of a terminal state
	MaxViol  int
	Deadline time.Time // zero = none; when reached the search stops with Exhaustive=false
	Tick     func()    // called once per execution (liveness signal for the driver's watchdog)

	Executions  int
	Pruned      int
	Transitions int
	States      map[[2]uint64]int // key -> best remaining budget explored (+1)
	Terminals   int
	MaxDepth    int
	Outcomes    map[string]int
	Violations  []Violation
	HorizonHits int
	Exhaustive  bool
}

// Violation is a failed oracle together with the schedule that produced it.
type Violation struct {
	Msg     string
	Choices []int
}

type chooser struct {
	e      *Explorer
	prefix []int
	points []point
	used   int
}

func (c *chooser) Choose(x *rt.Exec, n int, cost []int) int {
	i := len(c.points)
	pick := 0
	if i < len(c.prefix) {
		pick = c.prefix[i]
		if pick >= n {
			panic(fmt.Sprintf("NONDETERMINISM: replayed choice %d out of range %d at point %d", pick, n, i))
		}
	} else if c.e.Cache {
		k := x.Key()
		rem := 1 << 30
		if c.e.Bound >= 0 {
			rem = c.e.Bound - c.used
		}
		if best, ok := c.e.States[k]; ok && best >= rem+1 {
			c.e.Pruned++
			return -1
		}
		c.e.States[k] = rem + 1
	}
	c.points = append(c.points, point{n: n, cost: append([]int(nil), cost...), chosen: pick, used: c.used})
	c.used += cost[pick]
	c.e.Transitions++
	return pick
}

func (e *Explorer) cfg(x *rt.Exec) {
	if e.Cfg != nil {
		e.Cfg(x)
	}
	x.KeyLast = e.Bound >= 0
}

func (e *Explorer) run(prefix []int) *chooser {
	c := &chooser{e: e, prefix: prefix}
	x := rt.Run(e.Root, c, e.cfg)
	e.Executions++
	if e.Tick != nil {
		e.Tick()
	}
	if len(c.points) > e.MaxDepth {
		e.MaxDepth = len(c.points)
	}
	if x.HitHorizon {
		e.HorizonHits++
	}
	if !x.Aborted {
		e.Terminals++
		if e.Outcome != nil {
			e.Outcomes[e.Outcome(x)]++
		}
		if msg := e.Check(x); msg != "" {
			ch := make([]int, len(c.points))
			for i, p := range c.points {
				ch[i] = p.chosen
			}
			e.Violations = append(e.Violations, Violation{msg, ch})
		}
	}
	return c
}

// Explore runs the search.
func (e *Explorer) Explore() {
	e.States = map[[2]uint64]int{}
	e.Outcomes = map[string]int{}
	if e.MaxViol == 0 {
		e.MaxViol = 1
	}
	e.Exhaustive = true
	e.explore(nil)
	if e.HorizonHits > 0 {
		e.Exhaustive = false
	}
}

func (e *Explorer) explore(prefix []int) {
	c := e.run(prefix)
	pts := c.points
	for i := len(pts) - 1; i >= len(prefix); i-- { // deepest first keeps the cache effective
		p := pts[i]
		for alt := 0; alt < p.n; alt++ {
			if alt == p.chosen {
				continue
			}
			if e.Bound >= 0 && p.used+p.cost[alt] > e.Bound {
				continue
			}
			if len(e.Violations) >= e.MaxViol {
				return
			}
			if !e.Deadline.IsZero() && e.Executions%64 == 0 && time.Now().After(e.Deadline) {
				e.Exhaustive = false
				return
			}
			np := make([]int, i+1)
			for j := 0; j < i; j++ {
				np[j] = pts[j].chosen
			}
			np[i] = alt
			e.explore(np)
		}
	}
}

// fixed replays a recorded schedule; beyond it, it takes choice 0.
type fixed struct {
	ch  []int
	i   int
	bad string
}

func (r *fixed) Choose(x *rt.Exec, n int, cost []int) int {
	c := 0
	if r.i < len(r.ch) {
		c = r.ch[r.i]
		if c >= n {
			r.bad = fmt.Sprintf("choice %d out of range %d at point %d", c, n, r.i)
			return -1
		}
	}
	r.i++
	return c
}

// Replay re-executes one schedule with tracing and returns the trace, the
// oracle's verdict and the terminal outcome. A schedule that cannot be replayed
// (nondeterminism) is reported in err.
func (e *Explorer) Replay(choices []int) (trace, verdict, outcome string, err error) {
	var tb strings.Builder
	r := &fixed{ch: choices}
	x := rt.Run(e.Root, r, func(x *rt.Exec) { e.cfg(x); x.Trace = &tb })
	if r.bad != "" {
		return tb.String(), "", "", fmt.Errorf("NONDETERMINISM: %s", r.bad)
	}
	for _, t := range x.Threads {
		st := "finished"
		if t.AtEnd != "" {
			st = "blocked at " + t.AtEnd
		}
		if t.Panic != nil {
			st = fmt.Sprintf("panicked: %v", t.Panic)
		}
		fmt.Fprintf(&tb, "thread %s (%s): %s; log %v\n", t.ID, t.Site, st, t.Log)
	}
	verdict = e.Check(x)
	if e.Outcome != nil {
		outcome = e.Outcome(x)
	}
	return tb.String(), verdict, outcome, nil
}
