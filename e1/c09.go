package main

import (
	"fmt"
	"sort"
	"strconv"

	"verif/drv"
	"verif/e1lib"
	"verif/obs"
	"vharness/forkh"
)

func forkName(c forkh.Cfg) string {
	in := fmt.Sprint(c.Input)
	if len(c.Input) > 40 {
		in = fmt.Sprintf("[%d elements: %v ...]", len(c.Input), c.Input[:6])
	}
	s := fmt.Sprintf("fork.%s par=%d input=%s incap=%d mode=%s mask=%b stop=%d", c.Stage, c.Par, in, c.InCap, c.Mode, c.Mask, c.Stop)
	if c.Stage == "partition" {
		s += fmt.Sprintf("/%d", c.Stop2)
	}
	if c.Stage == "fold" {
		s += " monoid=" + c.Monoid
	}
	if c.Cancel {
		s += " cancel"
	}
	if c.ErrRd != "" {
		s += " err=" + c.ErrRd
	}
	return s
}

// forkRef: the multiset the sequential pipe stage delivers (as sorted lists).
func forkRef(c forkh.Cfg) (outs map[string][]string, errs []string, names []string) {
	outs = map[string][]string{}
	add := func(n string, v any) { outs[n] = append(outs[n], fmt.Sprint(v)) }
	switch c.Stage {
	case "map", "map2":
		names = []string{"got"}
		for _, x := range c.Input {
			if c.Mode != "pure" && forkh.Bit(c.Mask, x) {
				errs = append(errs, forkh.Fail(x).Error())
			} else {
				add("got", x*10)
			}
		}
	case "fmap":
		names = []string{"got"}
		for _, x := range c.Input {
			add("got", x*10)
			add("got", x*10+1)
			if forkh.Bit(c.Mask, x) {
				errs = append(errs, forkh.Fail(x).Error())
			}
		}
	case "filter":
		names = []string{"got"}
		for _, x := range c.Input {
			if forkh.Bit(c.Mask, x) {
				add("got", x)
			}
		}
	case "partition":
		names = []string{"l", "r"}
		for _, x := range c.Input {
			if forkh.Bit(c.Mask, x) {
				add("l", x)
			} else {
				add("r", x)
			}
		}
	case "foreach", "void":
		names = []string{"done"}
	case "fold":
		names = []string{"got"}
		acc, op := forkh.Monoid(c.Monoid)
		for _, x := range c.Input {
			acc = op(acc, x)
		}
		add("got", acc)
	}
	for _, n := range names {
		if outs[n] == nil {
			outs[n] = []string{}
		}
		sort.Strings(outs[n])
	}
	sort.Strings(errs)
	return
}

// C09 (and the C06 clauses for the fork stages).
func c09Check(c forkh.Cfg) func(o *obs.Obs) string {
	outs, errs, names := forkRef(c)
	hasErr := c.Stage == "map" || c.Stage == "fmap" || c.Stage == "map2"
	userFn := c.Stage != "void" && c.Stage != "fold"
	return func(o *obs.Obs) string {
		tag := fmt.Sprintf("C09/%s/%s", c.Stage, c.Mode)
		if p := o.AnyPanic(); p != "" {
			return tag + "/panic|" + p
		}
		cancelled := o.Has("cancel")
		if c.Stage == "map2" {
			var wantB []string
			for i := range c.Input {
				wantB = append(wantB, fmt.Sprint((33+i)*10))
			}
			sort.Strings(wantB)
			if gb := sorted(o.Strs("gotb")); !obs.Equal(gb, wantB) || o.N("errb") != 0 || !o.Has("gotb-eof") || !o.Has("errb-eof") {
				return fmt.Sprintf("%s/shared-f|a second fork.Map using the same F value over elements that never fail delivered %v, errors %v (closed: %v %v), want %v and no error", tag, gb, o.Strs("errb"), o.Has("gotb-eof"), o.Has("errb-eof"), wantB)
			}
		}
		drained := c.Stop == -1 && (c.Stage != "partition" || c.Stop2 == -1) && c.ErrRd != "none"
		complete := !cancelled && drained && (c.Mode != "lift" || c.Stage == "foreach") // ForEach has no error channel: a failing visitor stops nothing
		calls := map[string]int{}
		for _, x := range o.Strs("call") {
			calls[x]++
		}
		in := map[string]int{}
		for i, x := range c.Input {
			in[fmt.Sprint(x)]++
			if c.Stage == "map2" {
				in[fmt.Sprint(33+i)]++ // the elements of the second stage
			}
		}
		if userFn {
			for _, x := range sortedKeys(calls) {
				if n := calls[x]; n > in[x] {
					return fmt.Sprintf("%s/twice|the function was applied %d times to element %s (input %v)", tag, n, x, c.Input)
				}
			}
			if complete {
				for _, x := range sortedKeys(in) {
					if n := in[x]; calls[x] != n {
						return fmt.Sprintf("%s/calls|input %v fully consumed but the function was applied %d times to element %s", tag, c.Input, calls[x], x)
					}
				}
			}
		}
		for _, n := range names {
			got := sorted(o.Strs(n))
			if complete {
				if !obs.Equal(got, outs[n]) {
					return fmt.Sprintf("%s/multiset|output %q delivered %v, the sequential stage delivers the multiset %v", tag, n, got, outs[n])
				}
				if !o.Has(n + "-eof") {
					return fmt.Sprintf("%s/not-closed|output %q never closed; library: %v", tag, n, o.LibBlocked())
				}
			} else if c.Stage == "fold" {
				if cancelled && c.InCap == 0 && c.Stop == -1 {
					if m := foldCancelled(tag, c, o); m != "" {
						return m
					}
				}
				total, _ := strconv.Atoi(outs[n][0])
				for _, g := range got {
					if v, _ := strconv.Atoi(g); len(got) > 1 || v&^total != 0 {
						return fmt.Sprintf("%s/invented|fork.Fold delivered %v: more than one value, or not a sum of elements of the input %v each taken once", tag, got, c.Input)
					}
				}
			} else if !obs.SubMultiset(got, outs[n]) {
				return fmt.Sprintf("%s/invented|output %q delivered %v: not contained in %v", tag, n, got, outs[n])
			}
		}
		if hasErr {
			got := sorted(o.Strs("err"))
			if complete && c.ErrRd == "reader" {
				if !obs.Equal(got, errs) {
					return fmt.Sprintf("%s/errors|errors %v, want one per failing element %v", tag, got, errs)
				}
				if !o.Has("err-eof") {
					return fmt.Sprintf("%s/not-closed|error channel never closed; library: %v", tag, o.LibBlocked())
				}
			} else if !obs.SubMultiset(got, errs) {
				return fmt.Sprintf("%s/errors|errors %v: not contained in %v", tag, got, errs)
			}
		}
		if !o.Sim {
			return ""
		}
		if (complete || (!cancelled && drained)) && o.Has("in-closed") {
			if lb := o.LibBlocked(); len(lb) > 0 {
				return fmt.Sprintf("%s/leak|input closed and outputs drained but library goroutines remain: %v", tag, lb)
			}
			for _, n := range o.NotClosed() {
				return fmt.Sprintf("%s/not-closed|input closed and outputs drained but channel %q is not closed", tag, n)
			}
		}
		if cancelled {
			if lb := o.LibBlocked(); len(lb) > 0 {
				return fmt.Sprintf("%s/cancel-leak|cancelled and input closed but library goroutines remain: %v", tag, lb)
			}
			for _, n := range o.NotClosed() {
				return fmt.Sprintf("%s/cancel-not-closed|cancelled, library goroutines gone, but channel %q was never closed", tag, n)
			}
		}
		return ""
	}
}

// sortedKeys: oracle messages must not depend on map iteration order (the determinism guard compares them)
func sortedKeys(m map[string]int) []string {
	ks := make([]string, 0, len(m))
	for k := range m {
		ks = append(ks, k)
	}
	sort.Strings(ks)
	return ks
}

func seq1(k int) []int {
	xs := make([]int, k)
	for i := range xs {
		xs[i] = i + 1
	}
	return xs
}

func c09Scenarios(tier string) []e1lib.Scenario {
	var out []e1lib.Scenario
	dev := false
	add := func(c forkh.Cfg, bound int) {
		var done []string
		if !c.Cancel && c.Stop == -1 && (c.Stage != "partition" || c.Stop2 == -1) && c.ErrRd != "none" && c.Mode != "lift" {
			_, _, names := forkRef(c)
			for _, n := range names {
				done = append(done, n+"-eof")
			}
			if c.Stage == "map" || c.Stage == "fmap" || c.Stage == "map2" {
				done = append(done, "err-eof")
			}
			if c.Stage == "map2" {
				done = append(done, "gotb-eof", "errb-eof")
			}
		}
		name := forkName(c)
		if dev {
			name += fmt.Sprintf(" deviations<=%d", bound)
		}
		out = append(out, e1lib.Scenario{Name: name, Root: func() { forkh.Scenario(c) }, Check: c09Check(c), Bound: bound, Deviations: dev, Sample: c, Sym: !(c.Par == 2 && len(c.Input) <= 2 && !c.Cancel && c.Stop == -1), RealDone: done})
	}
	type pk struct{ par, k int }
	sizes := []pk{{1, 0}, {1, 1}, {1, 2}, {1, 3}, {2, 0}, {2, 1}, {2, 2}, {2, 3}, {3, 1}, {3, 2}}
	if tier == "thorough" {
		sizes = append(sizes, pk{3, 3}, pk{2, 4}, pk{4, 2})
	}
	for _, s := range sizes {
		bound := -1
		if s.par*s.k >= 8 {
			bound = 3
		}
		for ici, ic := range []int{0, s.k} {
			if ici == 1 && s.k == 0 { // capacity 0 twice: the empty input is run once
				continue
			}
			base := forkh.Cfg{Par: s.par, Input: seq1(s.k), InCap: ic, Stop: -1, Stop2: -1}
			allMasks := func(f func(m int)) {
				for m := 0; m < 1<<s.k; m++ {
					f(m << 1)
				}
			}
			// complete runs: exactly-once and multiset equality
			for _, st := range []string{"map", "fmap"} {
				c := base
				c.Stage, c.ErrRd = st, "reader"
				if st == "map" {
					c.Mode = "pure"
					add(c, bound)
				}
				c.Mode = "try"
				allMasks(func(m int) {
					if st == "fmap" && s.par*s.k >= 6 && m != 0 && m != 2 {
						return
					}
					c.Mask = m
					add(c, bound)
				})
			}
			for _, st := range []string{"filter", "partition"} {
				c := base
				c.Stage, c.Mode = st, "pure"
				allMasks(func(m int) { c.Mask = m; add(c, bound) })
			}
			for _, st := range []string{"foreach", "void"} {
				c := base
				c.Stage, c.Mode = st, "pure"
				add(c, bound)
			}
			// the closure / cancel / leak clauses: consumers that leave, cancel, unread error channel, Lift mode
			if s.k <= 2 || tier == "thorough" {
				for _, cancel := range []bool{false, true} {
					for _, stop := range []int{-1, 0, 1} {
						if !cancel && stop == -1 {
							continue
						}
						for _, st := range []string{"map", "fmap", "filter", "partition", "foreach", "void", "fold"} {
							if (st == "foreach" || st == "void") && stop != -1 || (st == "fold" && stop == 1) {
								continue
							}
							c := base
							c.Stage, c.Cancel, c.Stop, c.Stop2, c.Mode = st, cancel, stop, stop, "pure"
							if st == "fold" {
								// the sum of distinct powers of two is the bag of what was combined: under cancel at most one value, made of input elements only
								c.Monoid = "sum"
								c.Input = make([]int, len(base.Input))
								for i := range c.Input {
									c.Input[i] = 1 << (3 * (i + 1))
								}
							}
							bound := bound
							if s.par*s.k >= 8 {
								bound = 2 // the cancel family multiplies the schedules; fmap at 3x3 did not finish with bound 3 in 20 min
							}
							switch st {
							case "map", "fmap":
								for _, mode := range []string{"try", "lift"} {
									for _, rd := range []string{"reader", "none"} {
										c.Mode, c.ErrRd = mode, rd
										for _, m := range []int{0, 1 << 1, 1<<1 | 1<<2} {
											if (m>>1) >= 1<<s.k || (rd == "none" && m == 0) {
												continue
											}
											c.Mask = m
											add(c, bound)
										}
									}
								}
							case "filter", "partition":
								for _, m := range []int{0, 1 << 1, (1<<s.k - 1) << 1} {
									c.Mask = m
									add(c, bound)
								}
							default:
								add(c, bound)
							}
						}
					}
				}
			}
		}
	}
	// a visitor that fails (ForEach still visits everything), and one F value shared by two stages
	for _, s := range []pk{{1, 2}, {2, 2}, {2, 3}} {
		for m := 1; m < 1<<s.k; m++ {
			for _, mode := range []string{"lift", "try"} {
				add(forkh.Cfg{Stage: "foreach", Par: s.par, Input: seq1(s.k), InCap: 0, Mode: mode, Mask: m << 1, Stop: -1, Stop2: -1}, -1)
			}
			if s.k == 2 {
				for _, mode := range []string{"lift", "try"} {
					if s.par == 1 {
						add(forkh.Cfg{Stage: "map2", Par: s.par, Input: seq1(s.k), InCap: 0, Mode: mode, Mask: m << 1, Stop: -1, Stop2: -1, ErrRd: "reader"}, -1)
						continue
					}
					// two stages of two workers with their closers, producers and four consumers: up to two deviations
					dev = true
					add(forkh.Cfg{Stage: "map2", Par: s.par, Input: seq1(s.k), InCap: 0, Mode: mode, Mask: m << 1, Stop: -1, Stop2: -1, ErrRd: "reader"}, 2)
					dev = false
				}
			}
		}
	}
	// many workers and long inputs, explored up to a deviation bound: more workers than elements, more workers
	// or elements than any plausible fixed buffer (8, 16, 32)
	dev = true
	db := 2
	if tier == "thorough" {
		db = 3
	}
	for _, s := range []pk{{5, 3}, {9, 2}, {17, 3}, {33, 2}, {2, 9}, {3, 17}, {4, 33}} {
		b := db
		if s.par > 9 || s.k > 9 {
			b--
		}
		alt := 0
		for x := 1; x <= s.k; x += 2 {
			alt |= 1 << x
		}
		for _, ic := range []int{0, s.k} {
			base := forkh.Cfg{Par: s.par, Input: seq1(s.k), InCap: ic, Stop: -1, Stop2: -1, ErrRd: "reader"}
			for _, st := range []string{"map", "fmap", "filter", "partition", "foreach", "void"} {
				c := base
				c.Stage, c.Mode = st, "pure"
				switch st {
				case "map", "fmap":
					c.Mode = "try"
					c.Mask = 0
					add(c, b)
					c.Mask = alt
					add(c, b)
					c.Cancel = true
					add(c, b)
				case "filter", "partition":
					c.Mask = alt
					add(c, b)
					c.Cancel = true
					add(c, b)
				default:
					add(c, b)
				}
			}
		}
	}
	// 1100 elements (more than 1024) over one and two workers, the default schedule only: whatever a worker does at a size
	// threshold, every element is processed once
	for _, par := range []int{1, 2} {
		alt := 0
		for x := 1; x < 62; x += 2 {
			alt |= 1 << x
		}
		for _, st := range []string{"map", "filter", "partition", "foreach", "void"} {
			c := forkh.Cfg{Stage: st, Par: par, Input: seq1(1100), InCap: 0, Mode: "pure", Stop: -1, Stop2: -1, ErrRd: "reader"}
			if st == "map" {
				c.Mode = "try"
			}
			if st == "filter" || st == "partition" {
				c.Mask = alt
			}
			before := len(out)
			add(c, 0)
			out[before].Horizon = 60 * 1100
			out[before].RealDone = nil
		}
	}
	dev = false
	return out
}

func propC09() drv.Property {
	return table("C09",
		"one case = one fork stage (Map, FMap, Filter, Partition, ForEach, Void; Pure, Try and, for the closure clauses, Lift functions) x worker count par in 1..3 (4) x input 1..k (par*k <= 6 quick, up to par 3 x k 3, par 2 x k 4, par 4 x k 2 thorough) x input capacity {0, k} x every failure / predicate pattern x consumers draining / absent / leaving x canceller absent or free x error channel read or never read; the user function contains a scheduling point, so in-flight calls complete in every order; every interleaving explored (state-cached, unbounded; preemption bound 3 when par*k >= 8, 2 for the cancel / leave family at that size); par x k in {5x3, 9x2, 17x3, 33x2, 2x9, 3x17, 4x33} explored up to 2 (thorough 3) deviations from the default schedule (one less above 9 workers or elements); non-trivial = more than one distinct terminal outcome",
		append(commonAssumptions, "data races are invisible to a cooperative scheduler: the 'without data races' clause is covered by the auxiliary free-running -race pass only"), c09Scenarios)
}
