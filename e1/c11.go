package main

import (
	"fmt"

	"verif/drv"
	"verif/e1lib"
	"verif/obs"
	"vharness/timed"
)

func timedName(c timed.Cfg) string {
	switch c.Kind {
	case "emit":
		return fmt.Sprintf("emit cap=%d freq=%d mode=%s mask=%b gaps=%v cancel-at=%d drain=%v%s%s", c.Cap, c.Freq, c.Mode, c.Mask, c.ConsGaps, c.CancelAt, c.Drain, map[bool]string{true: " errors-unread"}[c.NoErr], map[bool]string{true: " context-cancelled-before-the-call"}[c.PreCancel])
	case "unfold":
		return fmt.Sprintf("unfold cap=%d step=%s gaps=%v cancel-at=%d drain=%v%s%s", c.Cap, c.Step, c.ConsGaps, c.CancelAt, c.Drain, map[bool]string{true: " errors-unread"}[c.NoErr], map[bool]string{true: " context-cancelled-before-the-call"}[c.PreCancel])
	}
	return fmt.Sprintf("throttle ops=%d interval=%d cap=%d k=%d prod-gap=%d gaps=%v cancel-at=%d%s", c.Ops, c.Interval, c.Cap, c.K, c.ProdGap, c.ConsGaps, c.CancelAt, map[bool]string{true: fmt.Sprintf(" deadline=%d", c.Timeout)}[c.Timeout > 0]+map[bool]string{true: " context.Background"}[c.Background])
}

// C11: exact successive sequence, paced (Emit), until cancelled.
func c11Check(c timed.Cfg) func(o *obs.Obs) string {
	// reference: values with their index
	var want []string
	idx := map[string]int{}
	nfail := 0
	var wantErr []string
	stopAt := -1
	switch c.Kind {
	case "emit":
		for i := 0; i < 16; i++ {
			if c.Mode != "pure" && timed.Bit(c.Mask, i) {
				wantErr = append(wantErr, timed.Fail(i).Error())
				nfail++
				if c.Mode == "lift" {
					stopAt = i
					break
				}
				continue
			}
			v := fmt.Sprint(i * 10)
			want = append(want, v)
			idx[v] = i
		}
	case "unfold":
		x := 1
		for i := 0; i < 16; i++ {
			want = append(want, fmt.Sprint(x))
			switch c.Step {
			case "dbl":
				x *= 2
			case "const":
			default:
				x++
			}
		}
	}
	keepUp := c.CancelAt < 0
	for _, g := range c.ConsGaps {
		if g != 0 {
			keepUp = false
		}
	}
	return func(o *obs.Obs) string {
		tag := "C11/" + c.Kind
		if p := o.AnyPanic(); p != "" {
			return tag + "/panic|" + p
		}
		partial := o.Horizon && !c.Drain // cut at the step horizon outside a liveness scenario: only the prefix-closed clauses apply
		if o.Horizon && !partial {
			return fmt.Sprintf("%s/cancel-livelock|the consumer keeps receiving after the cancel and the generator keeps delivering (%d values so far): on this path the generator never consults the context, so it does not stop after cancel", tag, o.N("got"))
		}
		got := o.Strs("got")
		if !obs.IsPrefix(got, want) {
			return fmt.Sprintf("%s/sequence|received %v: not the successive sequence %v (gap, repeat or reorder)", tag, got, want[:min(len(want), len(got)+2)])
		}
		if errs := o.Strs("err"); !obs.IsPrefix(errs, wantErr) {
			return fmt.Sprintf("%s/errors|errors %v, want a prefix of %v", tag, errs, wantErr)
		}
		cancelled := o.Has("cancel")
		if !cancelled && stopAt < 0 && !partial {
			return fmt.Sprintf("%s/stuck|the consumer could not finish its script of %d receives (got %v); library: %v", tag, len(c.ConsGaps), got, o.LibBlocked())
		}
		if c.CancelAt < 0 && stopAt < 0 && !c.Drain && !partial && len(got) != len(c.ConsGaps) {
			return fmt.Sprintf("%s/stuck|consumer script has %d receives, got %v", tag, len(c.ConsGaps), got)
		}
		if c.Kind == "emit" && o.Sim {
			f := max(int64(c.Freq), 0) // a frequency below zero is no pacing at all, like zero
			// the function is called at most once per tick: call i not before (i+1) ticks, consecutive calls >= f apart
			calls := o.Logs["call"]
			for j, e := range calls {
				i := e.Args[0].(int)
				if i != j {
					return fmt.Sprintf("%s/calls|the function was called on index %d as its call number %d", tag, i, j)
				}
				// at most one call per tick: call number i (from 0) cannot happen before i ticks have elapsed; whether
				// the stage sleeps before or after applying the function is its own business as long as the value
				// of index i is not available before i+1 ticks (checked on the receive stamps below)
				if e.Time < int64(i)*f {
					return fmt.Sprintf("%s/pace|f(%d) called at t=%d, before %d ticks of %d had elapsed: more than one call per tick", tag, i, e.Time, i, f)
				}
				if j > 0 && e.Time-calls[j-1].Time < f {
					return fmt.Sprintf("%s/pace|f(%d) at t=%d and f(%d) at t=%d are less than one tick (%d) apart", tag, i-1, calls[j-1].Time, i, e.Time, f)
				}
			}
			prevI, prevT := -1, int64(0)
			for _, e := range o.Logs["got"] {
				i := idx[fmt.Sprint(e.Args[0])]
				if e.Time < int64(i+1)*f {
					return fmt.Sprintf("%s/pace|value of index %d received at t=%d, before %d ticks of %d", tag, i, e.Time, i+1, f)
				}
				// a consumer that keeps up receives one value per tick: consecutive values are exactly as many ticks apart
				// as their indices (an index that fails under Try uses up its tick); when the first one arrives is bounded
				// from below only
				if keepUp && prevI >= 0 && e.Time-prevT != int64(i-prevI)*f {
					return fmt.Sprintf("%s/keep-up|consumer always ready: index %d received at t=%d and index %d at t=%d, want %d tick(s) of %d between them", tag, prevI, prevT, i, e.Time, i-prevI, f)
				}
				prevI, prevT = i, e.Time
			}
		}
		if o.Sim && (cancelled || stopAt >= 0) && !partial {
			if lb := o.LibBlocked(); len(lb) > 0 {
				return fmt.Sprintf("%s/cancel-leak|generator still running after cancel: %v", tag, lb)
			}
			if !o.Closed["got"] || !o.Closed["err"] {
				return fmt.Sprintf("%s/cancel-not-closed|after cancel: channels closed = %v", tag, o.Closed)
			}
		}
		return ""
	}
}

func gapScripts(alphabet []int, maxLen int) [][]int {
	var out [][]int
	var gen func(p []int)
	gen = func(p []int) {
		if len(p) > 0 {
			out = append(out, append([]int{}, p...))
		}
		if len(p) == maxLen {
			return
		}
		for _, g := range alphabet {
			gen(append(p, g))
		}
	}
	gen(nil)
	return out
}

func c11Scenarios(tier string) []e1lib.Scenario {
	var out []e1lib.Scenario
	add := func(c timed.Cfg) {
		chk := c11Check(c)
		out = append(out, e1lib.Scenario{Name: timedName(c), Root: func() { timed.Scenario(c) }, Check: chk, OnHorizon: chk, Bound: -1, Sample: c, Live: c.Drain,
			Nontrivial: func(outcomes, execs, states int) bool { return len(c.ConsGaps) >= 2 }})
	}
	maxLen := 3
	if tier == "thorough" {
		maxLen = 5
	}
	// liveness: the consumer keeps receiving after it cancelled; explored under the restriction that a thread which can
	// take a cancelled context's Done arm does so (rt.DonePriority): the generator must then stop within the horizon
	for cp := 0; cp <= 2; cp++ {
		for _, g := range []int{0, 2} {
			for n := 1; n <= 2; n++ {
				gaps := make([]int, n)
				for i := range gaps {
					gaps[i] = g
				}
				add(timed.Cfg{Kind: "unfold", Cap: cp, Step: "inc", ConsGaps: gaps, CancelAt: -1, Drain: true})
				add(timed.Cfg{Kind: "emit", Cap: cp, Freq: 1, Mode: "pure", ConsGaps: gaps, CancelAt: -1, Drain: true})
				add(timed.Cfg{Kind: "emit", Cap: cp, Freq: 1, Mode: "try", Mask: 0b0110, ConsGaps: gaps, CancelAt: -1, Drain: true})
			}
		}
	}
	// the context is cancelled before the generator is even created, and nobody receives: both channels still close and
	// no goroutine stays (with and without a reader of the error channel)
	for cp := 0; cp <= 2; cp++ {
		for _, noerr := range []bool{false, true} {
			add(timed.Cfg{Kind: "unfold", Cap: cp, Step: "inc", CancelAt: -1, PreCancel: true, NoErr: noerr})
			for _, f := range []int{0, 1, 3} {
				add(timed.Cfg{Kind: "emit", Cap: cp, Freq: f, Mode: "pure", CancelAt: -1, PreCancel: true, NoErr: noerr})
				add(timed.Cfg{Kind: "emit", Cap: cp, Freq: f, Mode: "try", Mask: 0b0011, CancelAt: -1, PreCancel: true, NoErr: noerr})
				add(timed.Cfg{Kind: "emit", Cap: cp, Freq: f, Mode: "lift", Mask: 0b0001, CancelAt: -1, PreCancel: true, NoErr: noerr})
			}
		}
	}
	// frequencies of everyday magnitude (190 ms, 250 ms, 1.5 s of virtual time; so far every tick was 1 or 3 ns): however a
	// period is slept - in one piece, in naps, on a ticker - the k-th value is not available before k periods
	for cp := 0; cp <= 1; cp++ {
		for _, f := range []int{190e6, 250e6, 1500e6, 100e6 + 1} {
			for _, gaps := range [][]int{{0, 0, 0}, {0, f, 0}, {f / 3, 0}} {
				add(timed.Cfg{Kind: "emit", Cap: cp, Freq: f, Mode: "pure", ConsGaps: gaps, CancelAt: -1})
				add(timed.Cfg{Kind: "emit", Cap: cp, Freq: f, Mode: "try", Mask: 0b0010, ConsGaps: gaps, CancelAt: -1})
			}
			add(timed.Cfg{Kind: "emit", Cap: cp, Freq: f, Mode: "pure", ConsGaps: []int{0, 0, 0, 0}, CancelAt: f + f/2})
		}
	}
	// a frequency of zero (or below): "no pacing" - the generator still produces every index, in order, as fast as it is consumed
	for cp := 0; cp <= 1; cp++ {
		for _, f := range []int{0, -1} {
			for _, gaps := range [][]int{{0}, {0, 0, 0}, {0, 2, 0}, {2, 2}} {
				add(timed.Cfg{Kind: "emit", Cap: cp, Freq: f, Mode: "pure", ConsGaps: gaps, CancelAt: -1})
				add(timed.Cfg{Kind: "emit", Cap: cp, Freq: f, Mode: "try", Mask: 0b0101, ConsGaps: gaps, CancelAt: -1})
				add(timed.Cfg{Kind: "emit", Cap: cp, Freq: f, Mode: "pure", ConsGaps: gaps, CancelAt: 2})
			}
		}
	}
	for cp := 0; cp <= 2; cp++ {
		for _, f := range []int{1, 3} {
			scripts := gapScripts([]int{0, f, 2 * f}, maxLen)
			if f > 1 {
				// a consumer that is late by between one and two ticks at one point (drift-compensating pacers go wrong there)
				for at := 0; at < 3; at++ {
					g := []int{0, 0, 0, 0, 0}
					g[at] = f + 1
					scripts = append(scripts, g)
					g2 := append([]int{}, g...)
					g2[at] = 2*f - 1
					scripts = append(scripts, g2)
				}
			}
			for _, gaps := range scripts {
				add(timed.Cfg{Kind: "emit", Cap: cp, Freq: f, Mode: "pure", ConsGaps: gaps, CancelAt: -1})
				// Try mode with failing index subsets of {0..3}
				for m := 1; m < 16; m++ {
					if tier == "quick" && len(gaps) == 3 && !(gaps[0] == gaps[1] && gaps[1] == gaps[2]) {
						continue
					}
					add(timed.Cfg{Kind: "emit", Cap: cp, Freq: f, Mode: "try", Mask: m, ConsGaps: gaps, CancelAt: -1})
				}
			}
			// cancel at every clock grid point, consumer keeps receiving until the close
			for at := 0; at <= 4*f+1; at++ {
				for _, g := range []int{0, f, 2 * f} {
					gaps := []int{g, g, g, g, g, g}
					add(timed.Cfg{Kind: "emit", Cap: cp, Freq: f, Mode: "pure", ConsGaps: gaps, CancelAt: at})
					add(timed.Cfg{Kind: "emit", Cap: cp, Freq: f, Mode: "try", Mask: 0b0101, ConsGaps: gaps, CancelAt: at})
					if g == 0 {
						// nobody reads the error channel: the generator may wait for ever with its error, but it must stop at the cancel
						add(timed.Cfg{Kind: "emit", Cap: cp, Freq: f, Mode: "try", Mask: 0b0101, ConsGaps: gaps, CancelAt: at, NoErr: true})
						add(timed.Cfg{Kind: "emit", Cap: cp, Freq: f, Mode: "try", Mask: 0b1111, ConsGaps: gaps, CancelAt: at, NoErr: true})
						add(timed.Cfg{Kind: "emit", Cap: cp, Freq: f, Mode: "lift", Mask: 0b0010, ConsGaps: gaps, CancelAt: at, NoErr: true})
						add(timed.Cfg{Kind: "emit", Cap: cp, Freq: f, Mode: "lift", Mask: 0b0001, ConsGaps: gaps, CancelAt: at, NoErr: true})
					}
				}
			}
			add(timed.Cfg{Kind: "emit", Cap: cp, Freq: f, Mode: "lift", Mask: 0b0100, ConsGaps: []int{0, 0, 0, 0}, CancelAt: -1})
		}
		// a consumer that stays away for seconds or minutes of virtual time at one point: whatever timers the generator may use
		// internally, a slow consumer only delays the sequence
		for at := 0; at <= 2; at++ {
			for _, away := range []int{3e9, 300e9} { // three seconds and five minutes (a timer of a second fires 3 / 300 times)
				gaps := []int{0, 0, 0, 0}
				gaps[at] = away
				add(timed.Cfg{Kind: "unfold", Cap: cp, Step: "inc", ConsGaps: gaps, CancelAt: -1})
				add(timed.Cfg{Kind: "emit", Cap: cp, Freq: 3, Mode: "pure", ConsGaps: gaps, CancelAt: -1})
				add(timed.Cfg{Kind: "emit", Cap: cp, Freq: 3, Mode: "try", Mask: 0b0101, ConsGaps: gaps, CancelAt: -1})
			}
		}
		for _, step := range []string{"inc", "dbl", "const"} {
			for _, gaps := range gapScripts([]int{0, 2}, maxLen+1) {
				add(timed.Cfg{Kind: "unfold", Cap: cp, Step: step, ConsGaps: gaps, CancelAt: -1})
			}
			for at := 0; at <= 5; at++ {
				add(timed.Cfg{Kind: "unfold", Cap: cp, Step: step, ConsGaps: []int{2, 2, 2, 2}, CancelAt: at})
			}
		}
	}
	return out
}

func propC11() drv.Property {
	return table("C11",
		"one case = Emit (cap 0..2, frequency 1 or 3 ticks, Pure / Try with every failing subset of indices 0..3 / Lift) or Unfold (cap 0..2, step +1 / x2 / constant) x consumer receive schedule (every script of gaps over {0, f, 2f} up to 3 (5) receives, after which the consumer cancels) x cancel by a separate thread at every clock grid point 0..4f+1 (also with an error channel nobody reads); virtual clock, every interleaving at equal instants explored; plus liveness scenarios in which the consumer keeps receiving after it cancelled, explored under the restriction that an enabled Done arm of a cancelled context is taken at once (an execution reaching the 400-step horizon there means the generator does not consult the context); non-trivial = script of at least two receives",
		append(commonAssumptions, "time is the virtual clock of rt: it advances only when no thread can run (the rule of testing/synctest); real-time jitter is not modelled"), c11Scenarios)
}
