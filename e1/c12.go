package main

import (
	"fmt"

	"verif/drv"
	"verif/e1lib"
	"verif/obs"
	"vharness/stage"
)

// C12: the output of Join is an interleaving of its inputs, complete, closed after and only after
// every input has closed and been drained (unless cancelled).
func c12Check(c stage.Cfg) func(o *obs.Obs) string {
	per, all := joinRef(c)
	return func(o *obs.Obs) string {
		tag := fmt.Sprintf("C12/inputs=%d", len(c.Inputs))
		if p := o.AnyPanic(); p != "" {
			return tag + "/panic|" + p
		}
		got := o.Strs("got")
		if c.Dup {
			// one channel read by two copiers: the relative order of its elements is not defined; nothing may be
			// invented or duplicated
			if !obs.SubMultiset(got, all) {
				return fmt.Sprintf("%s/invented|the same channel was passed twice; received %v, the channel carried %v", tag, got, all)
			}
		} else if m := joinOrder(got, per); m != "" {
			return tag + "/order|" + m
		}
		cancelled := o.Has("cancel")
		if o.Has("got-eof") && !cancelled {
			// the consumer loaded the number of producers that had closed when it observed the close
			if n := o.Arg("got-eof", 0, 0); n != len(c.Inputs) && o.Sim {
				return fmt.Sprintf("%s/early-close|output closed when only %d of %d inputs had been closed", tag, n, len(c.Inputs))
			}
			if !obs.Equal(sorted(got), all) {
				return fmt.Sprintf("%s/lost|output closed after %v, the inputs hold %v", tag, got, all)
			}
		}
		if c.Idle && !cancelled && c.Stop == -1 {
			// the producers went idle without closing: every element they sent is still owed to the consumer
			if !obs.Equal(sorted(got), all) {
				return fmt.Sprintf("%s/lost|every input is idle (open) after sending %v, the drained output delivered only %v; library: %v", tag, all, got, o.LibBlocked())
			}
		}
		if !cancelled && c.Stop == -1 && !c.Idle {
			if !o.Has("got-eof") {
				return fmt.Sprintf("%s/not-closed|every input closed and drained (%v received) but the output never closes; library: %v", tag, got, o.LibBlocked())
			}
			if lb := o.LibBlocked(); len(lb) > 0 && o.Sim {
				return fmt.Sprintf("%s/leak|library goroutines remain: %v", tag, lb)
			}
		}
		if cancelled && o.Sim {
			if lb := o.LibBlocked(); len(lb) > 0 {
				return fmt.Sprintf("%s/cancel-leak|cancelled but library goroutines remain: %v", tag, lb)
			}
		}
		return ""
	}
}

func c12Scenarios(tier string) []e1lib.Scenario {
	var out []e1lib.Scenario
	dev := false
	add := func(c stage.Cfg, bound int) {
		var done []string
		if !c.Cancel && !c.Idle && c.Late == 0 { // a late consumer really sleeps on the real runtime: exploration only
			done = []string{"got-eof"}
		}
		name := stageName(c)
		if dev {
			name += fmt.Sprintf(" deviations<=%d", bound)
		}
		out = append(out, e1lib.Scenario{Name: name, Root: func() { stage.Scenario(c) }, Check: c12Check(c), Bound: bound, Deviations: dev, Sample: c, RealDone: done})
	}
	var shapes [][]int
	maxLen, maxIn := 2, 3
	var gen func(prefix []int)
	gen = func(prefix []int) {
		shapes = append(shapes, append([]int{}, prefix...))
		if len(prefix) == maxIn {
			return
		}
		for n := 0; n <= maxLen; n++ {
			gen(append(prefix, n))
		}
	}
	gen(nil)
	for _, ins := range shapes {
		tot := 0
		for _, n := range ins {
			tot += n
		}
		for cp := 0; cp <= 1; cp++ {
			for _, cancel := range []bool{false, true} {
				bound := -1
				if tier == "quick" && (tot > 4 || (len(ins) == 3 && tot > 3) || (cancel && len(ins) == 3 && tot > 2)) {
					continue // thorough tier only
				}
				if tot >= 6 {
					bound = 4
					if cancel {
						bound = 3
					}
				}
				add(stage.Cfg{Stage: "join", Cap: cp, Inputs: ins, Cancel: cancel, Stop: -1}, bound)
			}
		}
	}
	// the same channel passed twice: its elements arrive once each, nothing else does
	for _, n := range []int{0, 1, 2, 3} {
		for cp := 0; cp <= 2; cp++ {
			add(stage.Cfg{Stage: "join", Cap: cp, Inputs: []int{n}, Stop: -1, Dup: true}, -1)
		}
	}
	// inputs that stay open and idle after their last element (whatever number of goroutines the merge uses, an idle
	// input may not starve another one), and a consumer that is five minutes late at one point (virtual clock)
	for _, ins := range [][]int{{0, 1}, {1, 1}, {0, 0, 1}, {1, 0, 2}, {0, 0, 0, 1}, {0, 1, 0, 1, 0, 1, 0, 1, 0, 1, 0, 1, 0, 1, 0, 1, 0, 1, 0, 1}} {
		b := -1
		if len(ins) > 4 {
			dev, b = true, 1
		}
		for cp := 0; cp <= 1; cp++ {
			add(stage.Cfg{Stage: "join", Cap: cp, Inputs: ins, Stop: -1, Idle: true}, b)
		}
		dev = false
	}
	for _, ins := range [][]int{{2}, {1, 1}, {2, 1}, {3}} {
		for cp := 0; cp <= 1; cp++ {
			for at := 0; at <= 2; at++ {
				add(stage.Cfg{Stage: "join", Cap: cp, Inputs: ins, Stop: -1, Late: 300e9, LateAt: at}, -1)
			}
		}
	}
	// deeply buffered inputs (a whole backlog fits into the channel): whatever an implementation does for roomy channels,
	// the elements of one input stay in order
	for _, cp := range []int{8, 32, 33, 64, 100, 1024} {
		for _, ins := range [][]int{{3}, {2, 2}, {4}} {
			if len(ins) == 1 && ins[0] == 4 && cp != 32 && cp != 64 {
				continue
			}
			add(stage.Cfg{Stage: "join", Cap: cp, Inputs: ins, Stop: -1}, -1)
		}
	}
	// element type any: the first element of the first input is a nil interface value
	for _, ins := range [][]int{{1}, {2}, {1, 1}, {2, 1}} {
		for cp := 0; cp <= 1; cp++ {
			add(stage.Cfg{Stage: "join", Cap: cp, Inputs: ins, Stop: -1, Any: true}, -1)
		}
	}
	// wide fan-in: 5..24 inputs of 0..2 elements, explored up to a deviation bound
	dev = true
	db := 2
	if tier == "thorough" {
		db = 3
	}
	for n := 5; n <= 24; n++ {
		if tier == "quick" && n > 9 && n%4 != 1 && n != 23 && n != 24 {
			continue
		}
		ones, mixed := make([]int, n), make([]int, n)
		for i := range ones {
			ones[i], mixed[i] = 1, (i+1)%3
		}
		b := db
		if n > 9 {
			b-- // 50 threads and 300 steps: the number of executions grows with (threads x steps)^bound
		}
		add(stage.Cfg{Stage: "join", Cap: 0, Inputs: ones, Stop: -1}, b)
		add(stage.Cfg{Stage: "join", Cap: 1, Inputs: mixed, Stop: -1}, b)
		add(stage.Cfg{Stage: "join", Cap: 0, Inputs: mixed, Stop: -1, Cancel: true}, b)
	}
	// one input of 1100 elements (more than 1024) next to a short one, the default schedule only
	for _, cp := range []int{0, 2} {
		add(stage.Cfg{Stage: "join", Cap: cp, Inputs: []int{3, 1100}, Stop: -1}, 0)
		out[len(out)-1].Horizon = 40 * 1100
		out[len(out)-1].RealDone = nil
	}
	dev = false
	if tier == "thorough" {
		add(stage.Cfg{Stage: "join", Cap: 0, Inputs: []int{1, 1, 1, 1}, Stop: -1}, -1)
		add(stage.Cfg{Stage: "join", Cap: 0, Inputs: []int{3, 2}, Stop: -1}, -1)
		add(stage.Cfg{Stage: "join", Cap: 2, Inputs: []int{3, 3}, Stop: -1}, -1)
	}
	return out
}

func propC12() drv.Property {
	return table("C12",
		"one case = Join over 0..3 inputs with 0..2 distinct elements each (every combination), input capacity 0..1, one producer thread per input, one draining consumer, canceller absent or free; every interleaving of sends, closes, copier goroutines and receives explored (state-cached; quick: up to 4 elements on <=2 inputs, up to 3 on 3 inputs, unbounded; thorough: every combination up to 2+2+2, unbounded below 6 elements, preemption bound 4 at 6 (3 with the free canceller)); Join over any-typed inputs whose first element is a nil interface value; wide fan-in of 5..24 inputs with 0..2 elements each explored up to 2 (thorough 3) deviations from the default schedule (one less above 9 inputs); the consumer loads the number of producers that have closed at the moment it observes the output's close; non-trivial = more than one distinct terminal outcome",
		commonAssumptions, c12Scenarios)
}
