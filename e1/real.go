//go:build !sim

package main

import (
	"encoding/json"
	"flag"
	"fmt"
	"os"

	"verif/e1lib"
)

// realMain is the free-running pass: the same scenario tables and oracles, the untranslated harness and
// library, the real scheduler, built with -race. Output: one JSON summary on stdout.
func realMain() {
	prop := flag.String("prop", "", "property id")
	tier := flag.String("tier", "quick", "tier")
	runs := flag.Int("runs", 8, "runs per scenario")
	shard := flag.Int("shard", 0, "this process runs the scenarios whose index is congruent to shard modulo of")
	of := flag.Int("of", 1, "number of shards")
	flag.Parse()
	type out struct {
		Scenarios int    `json:"scenarios"`
		Runs      int    `json:"runs"`
		Timeouts  int    `json:"timeouts"`
		Compared  int    `json:"scenarios_with_explored_outcome_set"`
		Conformed int    `json:"runs_whose_outcome_was_explored"`
		Violation string `json:"violation,omitempty"`
		Case      string `json:"case,omitempty"`
		Busy      string `json:"last_goroutine_not_at_rest,omitempty"`
	}
	var o out
	for _, p := range props() {
		if p.ID != *prop {
			continue
		}
		for idx, s := range scenarioTables[*prop](*tier) {
			if s.RealDone == nil || idx%*of != *shard {
				continue
			}
			o.Scenarios++
			n, v := s.RunReal(*runs)
			o.Runs += n
			o.Timeouts, o.Compared, o.Conformed = e1lib.Timeouts, e1lib.Compared, e1lib.Conformed
			if o.Timeouts > 0 {
				o.Busy = e1lib.LastBusy
			}
			if o.Timeouts >= 3 || e1lib.Abandoned {
				break // the machine is too busy for this auxiliary pass to be useful
			}
			if v != "" {
				o.Violation, o.Case = v, s.Name
				break
			}
		}
	}
	b, _ := json.Marshal(o)
	fmt.Println(string(b))
	if o.Violation != "" {
		os.Exit(1)
	}
}
