package main

import (
	"fmt"
	"math"

	"verif/drv"
	"verif/e1lib"
	"verif/obs"
	"vharness/stage"
)

// C05: no failure, no cancel, every consumer drains: outputs == list image, closed, no deadlock.
func c05Check(c stage.Cfg) func(o *obs.Obs) string {
	r := stageRef(c)
	return func(o *obs.Obs) string {
		tag := "C05/" + c.Stage
		if c.Stage == "take" {
			tag += fmt.Sprintf("/n=%d", c.N)
			if c.N > 0 {
				tag = "C05/take/n>0"
			}
		}
		if p := o.AnyPanic(); p != "" {
			return tag + "/panic|" + p
		}
		for _, n := range r.names {
			got := o.Strs(n)
			if !obs.Equal(got, r.outs[n]) {
				return fmt.Sprintf("%s/output|output %q delivered %v, the list function gives %v", tag, n, got, r.outs[n])
			}
			if !o.Has(n + "-eof") {
				return fmt.Sprintf("%s/not-closed|output %q delivered %v but was never closed (blocked: %v)", tag, n, got, append(o.LibBlocked(), o.EnvBlocked()...))
			}
		}
		if hasErrCh(c.Stage) {
			if o.N("err") != 0 {
				return fmt.Sprintf("%s/spurious-error|errors %v from functions that do not fail", tag, o.Strs("err"))
			}
			if !o.Has("err-eof") {
				return tag + "/err-not-closed|error channel never closed"
			}
		}
		switch c.Stage {
		case "foreach", "foreach-rep":
			if calls := o.Strs("call"); !obs.Equal(calls, r.calls) {
				return fmt.Sprintf("%s/visits|visited %v, want one visit per element in order %v", tag, calls, r.calls)
			}
		case "take":
			limit := c.K
			if c.N < c.K-c.Cap {
				limit = c.N + c.Cap
			}
			if o.Sim && o.N("sent") > limit {
				return fmt.Sprintf("%s/consumed|Take(%d) on an input of capacity %d let the producer complete %d sends: more than n elements consumed", tag, c.N, c.Cap, o.N("sent"))
			}
		}
		if lb := o.LibBlocked(); len(lb) > 0 {
			return fmt.Sprintf("%s/leak|outputs drained and closed but library goroutines remain: %v", tag, lb)
		}
		if c.Stage != "take" && c.Stage != "takewhile" && c.Stage != "takewhile-alt" && o.Sim {
			if eb := o.EnvBlocked(); len(eb) > 0 {
				return fmt.Sprintf("%s/deadlock|environment threads blocked for ever: %v", tag, eb)
			}
		}
		return ""
	}
}

func c05Scenarios(tier string) []e1lib.Scenario {
	maxK, bound4 := 4, -1
	if tier == "thorough" {
		maxK = 6
		bound4 = 4
	}
	var out []e1lib.Scenario
	dev := 0 // >0: the case is explored up to that many deviations from the default schedule
	add := func(c stage.Cfg) {
		b := -1
		if c.K >= 5 && (c.Stage == "partition" || c.Stage == "fmap") {
			b = bound4
		}
		if dev > 0 {
			b = dev
		}
		d := dev > 0
		var done []string
		for _, n := range stageRef(c).names {
			done = append(done, n+"-eof")
		}
		if hasErrCh(c.Stage) {
			done = append(done, "err-eof")
		}
		if c.Late > 0 {
			done = nil // the consumer really sleeps on the real runtime
		}
		name := stageName(c)
		if d {
			name += fmt.Sprintf(" deviations<=%d", b)
		}
		ref := stageRef(c)
		onHorizon := func(o *obs.Obs) string {
			// the scenarios are finite by construction; an execution that is still going at the step horizon has
			// delivered something the list function does not contain (e.g. an endless run of zero values)
			for _, n := range ref.names {
				if got := o.Strs(n); !obs.IsPrefix(got, ref.outs[n]) {
					if len(got) > 12 {
						got = append(got[:12:12], "...")
					}
					return fmt.Sprintf("C05/%s/endless|output %q delivered %v and is still delivering at the step horizon; the list function gives %v", c.Stage, n, got, ref.outs[n])
				}
			}
			return ""
		}
		out = append(out, e1lib.Scenario{Name: name, Root: func() { stage.Scenario(c) }, Check: c05Check(c), Bound: b, Deviations: d, Sample: c, RealDone: done, OnHorizon: onHorizon,
			// the result of these scenarios is deterministic by design (one outcome); a case is non-trivial
			// when there is something to reorder: at least two elements and more than one schedule
			Nontrivial: func(outcomes, execs, states int) bool { return c.K >= 2 && execs > 1 }})
	}
	for _, st := range []string{"map", "fmap", "filter", "takewhile", "take", "partition", "fold", "foreach", "void", "seq"} {
		for k := 0; k <= maxK; k++ {
			for cp := 0; cp <= 2; cp++ {
				if st == "seq" && cp > 0 {
					continue
				}
				c := stage.Cfg{Stage: st, K: k, Cap: cp, Stop: -1, Stop2: -1}
				switch st {
				case "map":
					c.Mode = "pure"
					add(c)
					c.Mode = "lift"
					add(c)
					c.Mode = "try"
					add(c)
				case "fmap":
					c.Mode = "lift"
					add(c)
					c.Mode = "try"
					add(c)
				case "filter", "takewhile", "partition":
					for m := 0; m < 1<<k; m++ {
						c.Mask = m << 1
						add(c)
						if k <= 2 {
							c.Mask |= 1 // the predicate also holds for 0, the zero value of the element type
							add(c)
						}
					}
				case "take":
					for n := 0; n <= k+1; n++ {
						c.N = n
						add(c)
					}
					if k <= 2 {
						c.N = math.MaxInt // "no limit"
						add(c)
					}
				default:
					add(c)
				}
			}
		}
	}
	// the same stages under context.Background(): a context that is never cancelled and whose Done() is nil
	for _, st := range []string{"map", "fmap", "filter", "takewhile", "take", "partition", "fold", "foreach"} {
		for k := 0; k <= 2; k++ {
			for cp := 0; cp <= 1; cp++ {
				c := stage.Cfg{Stage: st, K: k, N: k, Cap: cp, Stop: -1, Stop2: -1, Background: true, Mode: "pure"}
				switch st {
				case "fmap":
					c.Mode = "lift"
					add(c)
				case "filter", "takewhile", "partition":
					for m := 0; m < 1<<k; m++ {
						c.Mask = m << 1
						add(c)
					}
				case "take":
					for n := 0; n <= k+1; n++ {
						c.N = n
						add(c)
					}
				default:
					add(c)
				}
			}
		}
	}
	// element type `any` with nil interface values among the elements (identity functions, always-true predicates)
	for _, st := range []string{"map", "fmap", "filter", "takewhile", "take", "partition", "seq"} {
		for k := 0; k <= 3; k++ {
			for cp := 0; cp <= 1; cp++ {
				if st == "seq" && cp > 0 {
					continue
				}
				add(stage.Cfg{Stage: st, K: k, N: k, Cap: cp, Stop: -1, Stop2: -1, Any: true, Mode: "pure"})
			}
		}
	}
	// a consumer that is five minutes late at one point (virtual clock; a timer of a second fires 300 times meanwhile): whatever timers a stage may use internally, a slow
	// consumer only delays the stream; and a fold over an "empty" element that is not neutral still starts from it
	for _, st := range []string{"map", "fmap", "filter", "takewhile", "take", "partition", "fold"} {
		for k := 2; k <= 3; k++ {
			for cp := 0; cp <= 1; cp++ {
				for at := 0; at <= 2; at++ {
					c := stage.Cfg{Stage: st, K: k, N: k, Cap: cp, Stop: -1, Stop2: -1, Late: 300e9, LateAt: at}
					switch st {
					case "map":
						c.Mode = "pure"
					case "fmap":
						c.Mode = "lift"
					case "filter", "takewhile", "partition":
						c.Mask = (1<<k - 1) << 1
					}
					add(c)
				}
			}
		}
	}
	for k := 0; k <= 3; k++ {
		add(stage.Cfg{Stage: "fold100", K: k, Stop: -1, Stop2: -1})
	}
	// predicates with memory (true on the odd-numbered calls / on the first two calls) and inputs with runs of equal elements
	// under a function that numbers its calls: the stage applies its function once per element, in input order
	for k := 0; k <= 4; k++ {
		for cp := 0; cp <= 1; cp++ {
			for _, st := range []string{"filter-alt", "takewhile-alt", "partition-alt", "foreach-rep", "map-rep"} {
				if k > 3 && (st == "foreach-rep" || st == "map-rep") {
					continue
				}
				c := stage.Cfg{Stage: st, K: k, Cap: cp, Stop: -1, Stop2: -1, Mode: "pure", ErrRd: "reader"}
				add(c)
				if st == "partition-alt" && k >= 2 {
					c.Late, c.LateAt = 300e9, 0 // one side has no room for a long while
					add(c)
				}
			}
		}
	}
	// deeply buffered inputs (the whole input fits into the channel): whatever a stage does for roomy channels, the
	// list image is the same
	for _, cp := range []int{16, 64, 1024} {
		for _, st := range []string{"map", "fmap", "filter", "takewhile", "take", "partition", "fold", "foreach", "void"} {
			c := stage.Cfg{Stage: st, K: 3, N: 2, Cap: cp, Stop: -1, Stop2: -1, Mode: "pure", Mask: 0b1010}
			if st == "fmap" {
				c.Mode = "lift"
			}
			if st == "map" || st == "fmap" || st == "foreach" {
				c.Mask = 0 // the functions of this property do not fail
			}
			if st == "takewhile" {
				c.Mask = 0b0110
			}
			add(c)
		}
	}
	// Seq over argument lists longer than any plausible internal chunk size (the caller overwrites its slice after the call)
	for _, k := range []int{17, 65, 129, 300} {
		add(stage.Cfg{Stage: "seq", K: k, Stop: -1, Stop2: -1})
	}
	// long inputs: every stage over 9, 17 and 33 elements, explored up to a deviation bound
	dev = 3
	if tier == "thorough" {
		dev = 4
	}
	for _, k := range []int{9, 17, 33} {
		alt, all := 0, 0
		for x := 1; x <= k; x++ {
			all |= 1 << x
			if x%3 != 0 {
				alt |= 1 << x
			}
		}
		for _, cp := range []int{0, 2} {
			base := stage.Cfg{K: k, Cap: cp, Stop: -1, Stop2: -1}
			for _, st := range []string{"map", "fmap", "filter", "takewhile", "take", "partition", "fold", "foreach", "void"} {
				c := base
				c.Stage = st
				switch st {
				case "map":
					c.Mode = "pure"
					add(c)
				case "fmap":
					c.Mode = "lift"
					add(c)
				case "filter", "partition":
					c.Mask = alt
					add(c)
				case "takewhile":
					c.Mask = all &^ (1 << (k - 1))
					add(c)
					c.Mask = all
					add(c)
				case "take":
					for _, n := range []int{k / 2, k - 1, k, k + 1} {
						c.N = n
						add(c)
					}
				default:
					add(c)
				}
			}
		}
	}
	dev = 0
	// 1100 elements (more than 1024) through every stage, the default schedule only: whatever a stage does at a size
	// threshold, the list image is the same
	for _, st := range []string{"map", "fmap", "filter", "takewhile", "take", "partition", "fold", "foreach", "void"} {
		c := stage.Cfg{Stage: st, K: 1100, N: 1050, Cap: 0, Stop: -1, Stop2: -1, Mode: "pure", Mask: 0x2aaaaaaaaaaaaaaa}
		if st == "fmap" {
			c.Mode = "lift"
		}
		if st == "map" || st == "fmap" || st == "foreach" {
			c.Mask = 0
		}
		if st == "takewhile" {
			c.Mask = 0x3ffffffffffffffe // true up to 61
		}
		before := len(out)
		add(c)
		sc := &out[before]
		sc.Bound, sc.Deviations, sc.Horizon, sc.RealDone = 0, true, 40*1100, nil
		sc.Name += " deviations<=0"
	}
	return out
}

func propC05() drv.Property {
	return table("C05",
		"one case = one sequential stage (Map with Pure/Lift/Try, FMap with LiftF/TryF, Filter, TakeWhile, Take, Partition, Fold, ForEach, Void, Seq/ToSeq) x input 1..k (k<=4, 6 in thorough) x input capacity 0..2 x every predicate pattern (2^k) x every Take n in 0..k+1, with a producer thread, the stage's goroutine(s) and one draining consumer thread per output; every interleaving is explored (state-cached, unbounded; preemption bound 4 for k>=5 FMap/Partition); the same stages instantiated at element type any with nil interface values among the elements; Seq over 17..300 arguments with the caller overwriting its slice after the call; a consumer that is five minutes late (virtual clock) before its first, second or third receive; Fold over an operation whose 'empty' element is not neutral; every stage over 9, 17 and 33 elements explored up to 3 (thorough 4) deviations from the default schedule (a deviation = a preemption, a non-default thread at a blocking point or a non-default ready select arm); the outcome of a case is deterministic by design, so non-trivial = k>=2 and more than one schedule",
		commonAssumptions, c05Scenarios)
}
