package main

import (
	"fmt"

	"verif/drv"
	"verif/e1lib"
	"verif/obs"
	"vharness/forkh"
)

// C10: fork.Fold delivers exactly one value equal to the sequential left fold, then closes.
func c10Check(c forkh.Cfg) func(o *obs.Obs) string {
	outs, _, _ := forkRef(c)
	empty, _ := forkh.Monoid(c.Monoid)
	return func(o *obs.Obs) string {
		tag := fmt.Sprintf("C10/identity-is-zero=%v", empty == 0)
		if p := o.AnyPanic(); p != "" {
			return tag + "/panic|" + p
		}
		got := o.Strs("got")
		if c.Cancel && o.Has("cancel") {
			return foldCancelled(tag, c, o)
		}
		if !obs.Equal(got, outs["got"]) {
			return fmt.Sprintf("%s/value|fork.Fold(par=%d, %s) over %v delivered %v, the sequential fold gives %v", tag, c.Par, c.Monoid, c.Input, got, outs["got"])
		}
		if !o.Has("got-eof") {
			return fmt.Sprintf("%s/not-closed|result channel never closed; library: %v", tag, o.LibBlocked())
		}
		if o.Sim {
			if lb := o.LibBlocked(); len(lb) > 0 {
				return fmt.Sprintf("%s/leak|library goroutines remain: %v", tag, lb)
			}
			if eb := o.EnvBlocked(); len(eb) > 0 {
				return fmt.Sprintf("%s/blocked|environment blocked: %v", tag, eb)
			}
		}
		return ""
	}
}

func c10Scenarios(tier string) []e1lib.Scenario {
	var out []e1lib.Scenario
	maxLen := 3
	if tier == "thorough" {
		maxLen = 4
	}
	var inputs [][]int
	var gen func(p []int)
	gen = func(p []int) {
		inputs = append(inputs, append([]int{}, p...))
		if len(p) == maxLen {
			return
		}
		for x := 1; x <= 3; x++ {
			gen(append(p, x))
		}
	}
	gen(nil)
	maxPar := 3
	if tier == "thorough" {
		maxPar = 4
	}
	for par := 1; par <= maxPar; par++ {
		for _, in := range inputs {
			if par == 4 && len(in) > 3 {
				continue
			}
			if tier == "quick" && par == 3 && len(in) == 3 && !(in[0] <= in[1] && in[1] <= in[2]) {
				continue // quick: at par 3 only sorted inputs of length 3 (the monoids are commutative; thorough runs all)
			}
			for _, mo := range []string{"sum", "product", "max", "min", "and", "or"} {
				for ici, ic := range []int{0, len(in)} {
					if ici == 1 && len(in) == 0 { // capacity 0 twice: the empty input is run once
						continue
					}
					input := in
					if mo == "sum" {
						// injective weights: the sum is the bag of the elements, so a lost or doubly combined element shows
						input = make([]int, len(in))
						for i, x := range in {
							input[i] = 1 << (3 * x)
						}
					}
					if mo == "or" {
						input = make([]int, len(in))
						for i, x := range in {
							input[i] = 1 << x
						}
					}
					if mo == "and" {
						input = make([]int, len(in))
						for i, x := range in {
							input[i] = ^(1 << x)
						}
					}
					c := forkh.Cfg{Stage: "fold", Par: par, Input: input, InCap: ic, Monoid: mo, Stop: -1}
					out = append(out, e1lib.Scenario{Name: forkName(c), Root: func() { forkh.Scenario(c) }, Check: c10Check(c), Bound: -1, Sample: c, Sym: !(c.Par == 2 && len(c.Input) <= 2), RealDone: []string{"got-eof"},
						Nontrivial: func(outcomes, execs, states int) bool { return len(c.Input) >= 2 && c.Par >= 2 && execs > 1 }})
				}
			}
		}
	}
	// a canceller runs freely (the producer then closes the input): whatever is delivered is the fold of exactly the elements the stage
	// took from its (unbuffered) input - nothing that was taken is dropped, nothing is invented - and everything closes
	for par := 1; par <= maxPar; par++ {
		for k := 0; k <= 3; k++ {
			if par*k > 6 || (tier == "quick" && par*k > 4) {
				continue
			}
			input := make([]int, k)
			for i := range input {
				input[i] = 1 << (3 * (i + 1))
			}
			c := forkh.Cfg{Stage: "fold", Par: par, Input: input, InCap: 0, Monoid: "sum", Stop: -1, Cancel: true}
			out = append(out, e1lib.Scenario{Name: forkName(c), Root: func() { forkh.Scenario(c) }, Check: c10Check(c), Bound: -1, Sample: c, Sym: true,
				Nontrivial: func(outcomes, execs, states int) bool { return len(c.Input) >= 1 && execs > 1 }})
		}
	}
	// a monoid over a reference type whose Empty() hands out a fresh accumulator and whose Combine adds into its left
	// operand (big.Int, a map-backed bag): the workers' accumulators and the collector's must all be their own
	for par := 1; par <= 3; par++ {
		for k := 0; k <= 3; k++ {
			if par == 3 && k == 3 && tier == "quick" {
				continue
			}
			input := make([]int, k)
			for i := range input {
				input[i] = 1 << (3 * (i + 1))
			}
			c := forkh.Cfg{Stage: "foldptr", Par: par, Input: input, InCap: 0, Monoid: "sum", Stop: -1}
			ref := c
			ref.Stage = "fold"
			out = append(out, e1lib.Scenario{Name: forkName(c), Root: func() { forkh.Scenario(c) }, Check: c10Check(ref), Bound: -1, Sample: c, Sym: true, RealDone: []string{"got-eof"},
				Nontrivial: func(outcomes, execs, states int) bool { return len(c.Input) >= 2 && c.Par >= 2 && execs > 1 }})
		}
	}
	// many workers: far more workers than elements, and more than any plausible fixed buffer (8, 16, 32, 64)
	db := 2
	if tier == "thorough" {
		db = 3
	}
	for _, par := range []int{4, 5, 6, 9, 10, 12, 17, 33, 65} {
		for _, in := range [][]int{{}, {2, 3}, {1, 2, 3, 1, 2, 3, 1}} {
			for _, mo := range []string{"sum", "product"} {
				for ici, ic := range []int{0, len(in)} {
					if ici == 1 && len(in) == 0 { // capacity 0 twice: the empty input is run once
						continue
					}
					input := in
					if mo == "sum" {
						input = make([]int, len(in))
						for i, x := range in {
							input[i] = 1 << (3 * x)
						}
					}
					b := db
					if par > 9 {
						b--
					}
					c := forkh.Cfg{Stage: "fold", Par: par, Input: input, InCap: ic, Monoid: mo, Stop: -1}
					out = append(out, e1lib.Scenario{Name: forkName(c) + fmt.Sprintf(" deviations<=%d", b), Root: func() { forkh.Scenario(c) }, Check: c10Check(c), Bound: b, Deviations: true, Sample: c, Sym: true, RealDone: []string{"got-eof"},
						Nontrivial: func(outcomes, execs, states int) bool { return len(c.Input) >= 2 && execs > 1 }})
				}
			}
		}
	}
	// inputs of more than 1024 and 2048 elements (one worker takes them all, or two share them), monoids whose identity is
	// not the zero value: whatever a worker does at a size threshold, it goes on from the monoid's empty element
	for _, n := range []int{1100, 2100} {
		if tier == "quick" && n > 1100 {
			continue
		}
		for _, par := range []int{1, 2} {
			for _, mo := range []string{"min", "and", "product"} {
				input := make([]int, n)
				for i := range input {
					switch mo {
					case "min":
						input[i] = 3 + (i*7)%11
					case "and":
						input[i] = ^(1 << (i % 5))
					default:
						input[i] = 1
						if i%400 == 7 {
							input[i] = 3
						}
					}
				}
				c := forkh.Cfg{Stage: "fold", Par: par, Input: input, InCap: 0, Monoid: mo, Stop: -1}
				out = append(out, e1lib.Scenario{Name: forkName(c) + " deviations<=0", Root: func() { forkh.Scenario(c) }, Check: c10Check(c), Bound: 0, Deviations: true, Sample: map[string]any{"stage": "fold", "par": par, "elements": n, "monoid": mo}, Sym: true, Horizon: 40 * n,
					Nontrivial: func(outcomes, execs, states int) bool { return true }})
			}
		}
	}
	// two independent folds: 300 workers parked on an idle input must not keep a 2-worker fold from delivering
	for _, par := range []int{40, 300} {
		c := forkh.Cfg{Stage: "fold2", Par: par, Input: []int{8, 64}, InCap: 0, Monoid: "sum", Stop: -1}
		chk := c10Check(forkh.Cfg{Stage: "fold", Par: par, Input: c.Input, Monoid: "sum", Stop: -1})
		dv := 1
		if par > 100 {
			dv = 0 // the default schedule only: 600 threads
		}
		out = append(out, e1lib.Scenario{Name: forkName(c) + fmt.Sprintf(" deviations<=%d", dv), Root: func() { forkh.Scenario(c) }, Bound: dv, Deviations: true, Sample: c, Sym: true,
			Check: func(o *obs.Obs) string {
				if got := o.Strs("gotb"); !obs.Equal(got, []string{"11"}) || !o.Has("gotb-eof") {
					return fmt.Sprintf("C10/independent-folds|a fold with 2 workers over [5 6], started while a fold with %d workers waits for its input, delivered %v (closed: %v), want [11]; library: %v", par, got, o.Has("gotb-eof"), o.LibBlocked())
				}
				return chk(o)
			},
			Nontrivial: func(outcomes, execs, states int) bool { return execs > 1 }})
	}
	return out
}

func propC10() drv.Property {
	return table("C10",
		"one case = fork.Fold x worker count 1..3 (4 in thorough, inputs up to length 3) x every input sequence over a 3-letter alphabet of length <= 3 (4 in thorough), including empty and shorter than the worker count x monoid {sum with injective weights (the sum is the bag of elements, so exactly-once is visible), product, max, min, bitwise and, bitwise or} x input capacity {0, len}; 4, 5, 6, 9, 10, 12, 17, 33 and 65 workers over 0, 2 and 7 elements explored up to 2 (thorough 3) deviations from the default schedule (one less above 9 workers); every interleaving = every distribution of elements over workers and every arrival order of partial results at the collector; the result is deterministic by design, non-trivial = at least two elements, two workers and more than one schedule",
		commonAssumptions, c10Scenarios)
}

// foldCancelled is the oracle of fork.Fold under a cancelled context over an unbuffered input (every completed send was received by a
// worker): at most one value, equal to the sum of exactly the elements sent; result channel closed; no library goroutine left.
func foldCancelled(tag string, c forkh.Cfg, o *obs.Obs) string {
	got := o.Strs("got")
	sent := 0
	for _, e := range o.Logs["sent"] {
		sent += e.Args[0].(int)
	}
	if len(got) > 1 {
		return fmt.Sprintf("%s/cancel-value|fork.Fold delivered %d values under cancel: %v", tag, len(got), got)
	}
	if len(got) == 1 && c.InCap == 0 && got[0] != fmt.Sprint(sent) {
		return fmt.Sprintf("%s/cancel-value|cancelled: fork.Fold(par=%d) took the elements %v from its unbuffered input (sum %d) and delivered %v: elements it had taken are missing from (or foreign to) the one value it delivers", tag, c.Par, o.Strs("sent"), sent, got)
	}
	if !o.Sim {
		return ""
	}
	if !o.Has("in-closed") {
		return fmt.Sprintf("%s/harness|producer did not close its input after cancel: %v", tag, o.EnvBlocked())
	}
	if lb := o.LibBlocked(); len(lb) > 0 {
		return fmt.Sprintf("%s/cancel-leak|cancelled and input closed but library goroutines remain: %v", tag, lb)
	}
	for _, n := range o.NotClosed() {
		return fmt.Sprintf("%s/cancel-not-closed|cancelled, library goroutines gone, but channel %q was never closed", tag, n)
	}
	return ""
}
