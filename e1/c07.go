package main

import (
	"fmt"

	"verif/drv"
	"verif/e1lib"
	"verif/obs"
	"vharness/stage"
)

// C07: Lift/LiftF deliver exactly the results before the first failure, that error once, close both
// channels and process nothing further; Try/TryF deliver one error per failing element, the normal
// output of every other element, both in input order, and close when the input ends.
func c07Check(c stage.Cfg) func(o *obs.Obs) string {
	r := stageRef(c)
	return func(o *obs.Obs) string {
		tag := fmt.Sprintf("C07/%s/%s", c.Stage, c.Mode)
		if p := o.AnyPanic(); p != "" {
			return tag + "/panic|" + p
		}
		got, errs, calls := o.Strs("got"), o.Strs("err"), o.Strs("call")
		cancelled := o.Has("cancel")
		if c.Stage == "map2" {
			// the second stage shares the F value of the first and runs over elements 33.. that never fail: it must
			// deliver every image, no error, and close, whatever happened in the first stage
			var callsA, callsB, wantB, wantCallsB []string
			for _, x := range calls {
				if len(x) >= 2 && x >= "33" && len(x) == 2 {
					callsB = append(callsB, x)
				} else {
					callsA = append(callsA, x)
				}
			}
			calls = callsA
			for x := 33; x < 33+c.K; x++ {
				wantB = append(wantB, fmt.Sprint(x*10))
				wantCallsB = append(wantCallsB, fmt.Sprint(x))
			}
			if gb := o.Strs("gotb"); !obs.Equal(gb, wantB) || o.N("errb") != 0 {
				return fmt.Sprintf("%s/shared-f|a second Map stage using the same F value over elements that never fail delivered %v and errors %v, want %v and no error (first stage failing on %s)", tag, gb, o.Strs("errb"), wantB, maskStr(c))
			}
			if !obs.Equal(callsB, wantCallsB) {
				return fmt.Sprintf("%s/shared-f|the second stage called the function on %v, want %v", tag, callsB, wantCallsB)
			}
			if !o.Has("gotb-eof") || !o.Has("errb-eof") {
				return fmt.Sprintf("%s/shared-f|the second stage never closed its channels (library: %v)", tag, o.LibBlocked())
			}
		}
		if r.infinite || cancelled {
			// generator stopped by the consumer's cancel: everything up to the cancel must be exact
			if !obs.IsPrefix(got, r.outs["got"]) {
				return fmt.Sprintf("%s/values|delivered %v, want a prefix of %v", tag, got, r.outs["got"])
			}
			if c.CancelAfter > 0 && len(got) < c.CancelAfter {
				return fmt.Sprintf("%s/values|consumer never obtained its %d values: %v (blocked: %v)", tag, c.CancelAfter, got, o.LibBlocked())
			}
			if c.ErrRd == "reader" {
				if !obs.IsPrefix(errs, r.errs) {
					return fmt.Sprintf("%s/errors|errors %v, want a prefix of %v", tag, errs, r.errs)
				}
				// every failing index before the last delivered value must have produced its error
				need := 0
				if len(got) > 0 {
					last := got[len(got)-1]
					for i := 0; i < genHorizon && fmt.Sprint(i*10) != last; i++ {
						if stage.Bit(c.Mask, i) {
							need++
						}
					}
				}
				if len(errs) < need && c.Stage == "emit" {
					return fmt.Sprintf("%s/errors|values up to %v delivered but only errors %v of the %d failing indices before it", tag, got, errs, need)
				}
			}
		} else {
			if !obs.Equal(got, r.outs["got"]) {
				return fmt.Sprintf("%s/values|failing on %s: delivered %v, want exactly %v", tag, maskStr(c), got, r.outs["got"])
			}
			if c.ErrRd == "reader" && !obs.Equal(errs, r.errs) {
				return fmt.Sprintf("%s/errors|failing on %s: errors %v, want exactly %v", tag, maskStr(c), errs, r.errs)
			}
			if !obs.Equal(calls, r.calls) {
				return fmt.Sprintf("%s/calls|failing on %s: the function was called on %v, want %v (nothing processed after a fail-fast error, nothing twice)", tag, maskStr(c), calls, r.calls)
			}
		}
		if !o.Has("got-eof") && !cancelled {
			return fmt.Sprintf("%s/not-closed|value channel never closed (delivered %v; library: %v)", tag, got, o.LibBlocked())
		}
		if c.ErrRd == "reader" && !o.Has("err-eof") {
			return fmt.Sprintf("%s/not-closed|error channel never closed (errors %v; library: %v)", tag, errs, o.LibBlocked())
		}
		if o.Sim {
			if !o.Closed["err"] || !o.Closed["got"] {
				return fmt.Sprintf("%s/not-closed|channels closed: %v", tag, o.Closed)
			}
			if lb := o.LibBlocked(); len(lb) > 0 {
				return fmt.Sprintf("%s/blocked|library goroutines blocked for ever: %v", tag, lb)
			}
			if eb := o.EnvBlocked(); len(eb) > 0 && !(c.Mode == "lift" && len(r.errs) > 0) {
				return fmt.Sprintf("%s/blocked|environment blocked for ever: %v", tag, eb)
			}
		}
		return ""
	}
}

func maskStr(c stage.Cfg) string {
	var xs []int
	for i := 0; i < 16; i++ {
		if stage.Bit(c.Mask, i) {
			xs = append(xs, i)
		}
	}
	return fmt.Sprint(xs)
}

func c07Scenarios(tier string) []e1lib.Scenario {
	maxK := 3
	if tier == "thorough" {
		maxK = 5
	}
	var out []e1lib.Scenario
	add := func(c stage.Cfg) {
		b := -1
		if c.K >= 4 && c.Stage == "fmap" {
			b = 3
		}
		var done []string
		if (c.Stage == "map" || c.Stage == "fmap") && !c.Idle {
			done = []string{"got-eof"}
			if c.ErrRd == "reader" {
				done = append(done, "err-eof")
			}
		}
		out = append(out, e1lib.Scenario{Name: stageName(c), Root: func() { stage.Scenario(c) }, Check: c07Check(c), Bound: b, Sample: c, RealDone: done,
			Nontrivial: func(outcomes, execs, states int) bool { return c.Mask != 0 && execs > 1 }})
	}
	for _, st := range []string{"map", "fmap"} {
		for _, mode := range []string{"lift", "try"} {
			for k := 0; k <= maxK; k++ {
				for cp := 0; cp <= 2; cp++ {
					for m := 0; m < 1<<k; m++ {
						for _, rd := range []string{"reader", "stderr"} {
							add(stage.Cfg{Stage: st, Mode: mode, K: k, Cap: cp, Mask: m << 1, ErrRd: rd, Stop: -1})
							if cp <= 1 && k >= 1 {
								// a context that can never be cancelled (Done() is nil): the error modes do not depend on the context
								add(stage.Cfg{Stage: st, Mode: mode, K: k, Cap: cp, Mask: m << 1, ErrRd: rd, Stop: -1, Background: true})
							}
						}
					}
				}
			}
		}
	}
	// one F value shared by two Map stages; a producer that goes idle instead of closing the input (fail-fast must
	// still close both channels at the first failure)
	for _, mode := range []string{"lift", "try"} {
		for k := 1; k <= 3; k++ {
			for cp := 0; cp <= 1; cp++ {
				for m := 0; m < 1<<k; m++ {
					add(stage.Cfg{Stage: "map2", Mode: mode, K: k, Cap: cp, Mask: m << 1, ErrRd: "reader", Stop: -1})
				}
			}
		}
	}
	for _, st := range []string{"map", "fmap"} {
		for k := 1; k <= 3; k++ {
			for cp := 0; cp <= 2; cp++ {
				for m := 1; m < 1<<k; m++ {
					for _, rd := range []string{"reader", "stderr"} {
						add(stage.Cfg{Stage: st, Mode: "lift", K: k, Cap: cp, Mask: m << 1, ErrRd: rd, Stop: -1, Idle: true})
					}
				}
			}
		}
	}
	// more failures than any fixed number a logger or an error buffer could be sized for (explored up to one deviation)
	for _, k := range []int{40, 80, 140} {
		all := 0
		for x := 1; x <= k && x < 62; x++ {
			all |= 1 << x
		}
		for _, st := range []string{"map", "fmap"} {
			for _, rd := range []string{"stderr", "reader"} {
				c := stage.Cfg{Stage: st, Mode: "try", K: k, Cap: 0, Mask: all, FailFrom: 62, ErrRd: rd, Stop: -1}
				out = append(out, e1lib.Scenario{Name: stageName(c) + " deviations<=1", Root: func() { stage.Scenario(c) }, Check: c07Check(c), Bound: 1, Deviations: true, Sample: c,
					Nontrivial: func(outcomes, execs, states int) bool { return execs > 1 }})
			}
		}
	}
	// Emit over indices 0..3, Unfold over seeds 1..4
	for cp := 0; cp <= 2; cp++ {
		for _, rd := range []string{"reader", "stderr"} {
			for m := 0; m < 16; m++ {
				if m != 0 {
					add(stage.Cfg{Stage: "emit", Mode: "lift", Cap: cp, Mask: m, ErrRd: rd, Stop: -1, Interval: -1}) // frequency 0: no pacing
					add(stage.Cfg{Stage: "emit", Mode: "lift", Cap: cp, Mask: m, ErrRd: rd, Stop: -1})
					add(stage.Cfg{Stage: "unfold", Mode: "lift", Cap: cp, Mask: m << 1, ErrRd: rd, Stop: -1})
					if cp <= 1 {
						add(stage.Cfg{Stage: "emit", Mode: "lift", Cap: cp, Mask: m, ErrRd: rd, Stop: -1, Interval: -1, Background: true})
						add(stage.Cfg{Stage: "unfold", Mode: "lift", Cap: cp, Mask: m << 1, ErrRd: rd, Stop: -1, Background: true})
					}
				}
				for ca := 1; ca <= 2; ca++ {
					if tier == "quick" && ca == 2 && cp == 2 {
						continue
					}
					// the consumer cancels after ca values, takes at most one more and leaves (a consumer that
					// drained for ever would make the execution infinite: after cancel the generator may win
					// the race against ctx.Done() any number of times)
					add(stage.Cfg{Stage: "emit", Mode: "try", Cap: cp, Mask: m, ErrRd: rd, Stop: ca + 1, CancelAfter: ca})
					if ca == 1 {
						add(stage.Cfg{Stage: "emit", Mode: "try", Cap: cp, Mask: m, ErrRd: rd, Stop: ca + 1, CancelAfter: ca, Interval: -1})
					}
				}
			}
		}
	}
	return out
}

func propC07() drv.Property {
	return table("C07",
		"one case = {Map, FMap} x {Lift, Try} x input 1..k (k<=3, 5 in thorough) x capacity 0..2 x every subset of failing elements (2^k) x error consumer {harness reader, pipe.StdErr}; the same F value shared by two Map stages (the second over elements that never fail); fail-fast stages whose producer goes idle instead of closing the input; Emit over every failing subset of the indices 0..3 (Lift until the first failure; Try until the consumer cancels after 1 or 2 values); Unfold (fail-fast) over every failing subset of the seeds 1..4; value consumer and error consumer are independent threads; every interleaving explored (state-cached, unbounded); non-trivial = at least one failing element and more than one execution. Random longer inputs are not generated (sampling is outside this family)",
		commonAssumptions, c07Scenarios)
}
