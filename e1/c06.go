package main

import (
	"fmt"

	"verif/drv"
	"verif/e1lib"
	"verif/obs"
	"vharness/stage"
)

// C06: for every ordering of the environment's moves: no library panic; what
// was delivered is a prefix of the uncancelled result; inputs closed + outputs
// drained => everything closed and the goroutines gone; cancelled + inputs
// closed => every goroutine gone and every returned channel closed, even when
// nobody receives any more.
func c06Check(c stage.Cfg) func(o *obs.Obs) string {
	r := stageRef(c)
	per, _ := joinRef(c)
	producers := 1
	switch c.Stage {
	case "join":
		producers = len(c.Inputs)
	case "emit", "unfold", "seq", "seqtake":
		producers = 0
	}
	return func(o *obs.Obs) string {
		tag := "C06/" + c.Stage
		if p := o.LibPanic(); p != "" {
			return tag + "/panic|" + p
		}
		if p := o.AnyPanic(); p != "" {
			return tag + "/env-panic|" + p
		}
		if o.Horizon {
			return fmt.Sprintf("%s/cancel-livelock|the consumer keeps receiving after the cancel and the stage keeps delivering (%d values so far): on this path the stage never consults the context, so it does not terminate on cancel", tag, o.N("got"))
		}
		cancelled := o.Has("cancel")
		// (2) prefix of the uncancelled result
		switch c.Stage {
		case "join":
			if m := joinOrder(o.Strs("got"), per); m != "" {
				return tag + "/prefix|" + m
			}
		case "fold":
			got := o.Strs("got")
			if len(got) > 1 {
				return fmt.Sprintf("%s/prefix|Fold delivered %d values %v", tag, len(got), got)
			}
			if len(got) == 1 {
				ok := false
				for j := 0; j <= c.K; j++ {
					if got[0] == fmt.Sprint(foldAff(j)) && (cancelled || j == c.K) {
						ok = true
					}
				}
				if ok && cancelled && c.Cap == 0 && o.Sim && o.Has("in-closed") && got[0] != fmt.Sprint(foldAff(o.N("sent"))) {
					// unbuffered input: every completed send was taken by the stage, and what it has taken is in the value it delivers
					return fmt.Sprintf("%s/prefix|cancelled: Fold took %d elements from its unbuffered input and delivered %v, the fold of those elements is %v", tag, o.N("sent"), got, foldAff(o.N("sent")))
				}
				if !ok {
					return fmt.Sprintf("%s/prefix|Fold delivered %v: not the left fold of the input (cancelled=%v, full fold %v)", tag, got, cancelled, foldAff(c.K))
				}
			}
		default:
			for _, n := range r.names {
				if got := o.Strs(n); !obs.IsPrefix(got, r.outs[n]) {
					return fmt.Sprintf("%s/prefix|output %q delivered %v: not a prefix of the uncancelled result %v", tag, n, got, r.outs[n])
				}
			}
		}
		if got := o.Strs("err"); !obs.IsPrefix(got, r.errs) {
			return fmt.Sprintf("%s/prefix-err|errors %v: not a prefix of %v", tag, got, r.errs)
		}
		if c.Stage == "foreach" {
			if got := o.Strs("call"); !obs.IsPrefix(got, r.calls) {
				return fmt.Sprintf("%s/prefix-visit|visited %v: not a prefix of the input %v", tag, got, r.calls)
			}
		}
		if !o.Sim {
			return ""
		}
		allowed := 0
		if c.Stage == "throttle" {
			allowed = 1 // the pacer may stay until cancel
		}
		drained := c.Stop == -1 && (c.Stage != "partition" || c.Stop2 == -1) && c.ErrRd != "none"
		if !cancelled && drained && !r.infinite && o.N("in-closed") == producers {
			// (3) inputs closed, outputs drained
			for _, n := range r.names {
				if !o.Has(n+"-eof") || !o.Closed[n] {
					return fmt.Sprintf("%s/not-closed|inputs closed and outputs drained but output %q is not closed (library goroutines: %v)", tag, n, o.LibBlocked())
				}
			}
			if hasErrCh(c.Stage) && !o.Closed["err"] {
				return fmt.Sprintf("%s/not-closed|inputs closed and outputs drained but the error channel is not closed (library goroutines: %v)", tag, o.LibBlocked())
			}
			if lb := o.LibBlocked(); len(lb) > allowed {
				return fmt.Sprintf("%s/leak|inputs closed and outputs drained but library goroutines remain: %v", tag, lb)
			}
		}
		if cancelled {
			// (4) cancelled (the producers close their inputs on cancel)
			if o.N("in-closed") != producers {
				return fmt.Sprintf("%s/harness|producer did not close its input after cancel: %v", tag, o.EnvBlocked())
			}
			if lb := o.LibBlocked(); len(lb) > 0 {
				return fmt.Sprintf("%s/cancel-leak|context cancelled and inputs closed but library goroutines remain: %v", tag, lb)
			}
			for _, n := range o.NotClosed() {
				return fmt.Sprintf("%s/cancel-not-closed|context cancelled, inputs closed, all library goroutines gone, but returned channel %q was never closed", tag, n)
			}
		}
		return ""
	}
}

func c06Scenarios(tier string) []e1lib.Scenario {
	maxK := 2
	if tier == "thorough" {
		maxK = 3
	}
	var out []e1lib.Scenario
	devMode := -1 // >= 0: deviation bound for the long scenarios
	add := func(c stage.Cfg) {
		b := -1
		if c.K >= 3 && (c.Stage == "partition" || c.Stage == "join" || c.Stage == "throttle") {
			b = 3
		}
		// generators with a consumer that cancels and then keeps receiving are liveness scenarios (see e1lib.Scenario.Live)
		live := (c.Stage == "emit" || c.Stage == "unfold") && c.Stop == -1 && c.CancelAfter > 0
		// a function that fails for ever: once the context is cancelled the generator must stop within the iteration it is
		// in. After cancel try.catch may legitimately win its select against ctx.Done() any number of times while the error
		// reader is ready, so this is a liveness scenario as well (explored under the cancel-priority restriction)
		live = live || (c.Stage == "emit" && c.FailFrom > 0)
		sc := e1lib.Scenario{Name: stageName(c), Root: func() { stage.Scenario(c) }, Check: c06Check(c), Bound: b, Sample: c, Live: live}
		if devMode >= 0 {
			sc.Bound, sc.Deviations = devMode, true
			sc.Name += fmt.Sprintf(" deviations<=%d", devMode)
		}
		out = append(out, sc)
	}
	stops := func(n int) []int {
		s := []int{-1, 0}
		for m := 1; m <= n; m++ {
			s = append(s, m)
		}
		return s
	}
	for _, cancel := range []bool{false, true} {
		for cp := 0; cp <= 1; cp++ {
			for k := 0; k <= maxK; k++ {
				base := stage.Cfg{K: k, Cap: cp, Cancel: cancel, Stop2: -1}
				for _, st := range []string{"map", "fmap"} {
					for _, mode := range []string{"lift", "try"} {
						for m := 0; m < 1<<k; m++ {
							for _, rd := range []string{"reader", "stderr", "none"} {
								if rd == "stderr" && (st == "fmap" || mode == "lift") {
									continue
								}
								if rd == "none" && m == 0 {
									continue
								}
								c := base
								c.Stage, c.Mode, c.Mask, c.ErrRd = st, mode, m<<1, rd
								n := len(stageRef(c).outs["got"])
								for _, s := range stops(min(n, 2)) {
									c.Stop = s
									add(c)
								}
							}
						}
					}
				}
				for _, st := range []string{"filter", "takewhile"} {
					for m := 0; m < 1<<k; m++ {
						c := base
						c.Stage, c.Mask = st, m<<1
						for _, s := range stops(min(len(stageRef(c).outs["got"]), 2)) {
							c.Stop = s
							add(c)
						}
					}
				}
				for n := 0; n <= k+1; n++ {
					c := base
					c.Stage, c.N = "take", n
					for _, s := range stops(min(len(stageRef(c).outs["got"]), 2)) {
						c.Stop = s
						add(c)
					}
				}
				for m := 0; m < 1<<k; m++ {
					c := base
					c.Stage, c.Mask = "partition", m<<1
					for _, s := range []int{-1, 0, 1} {
						for _, s2 := range []int{-1, 0, 1} {
							c.Stop, c.Stop2 = s, s2
							add(c)
						}
					}
				}
				for _, st := range []string{"foreach", "void"} {
					c := base
					c.Stage, c.Stop = st, -1
					add(c)
				}
				for _, mode := range []string{"lift", "try"} { // failing visitors: all masks for k<=2, every element failing beyond
					for m := 1; m < 1<<k; m++ {
						if k > 2 && m != 1<<k-1 {
							continue
						}
						c := base
						c.Stage, c.Stop, c.Mode, c.Mask = "foreach", -1, mode, m<<1
						add(c)
					}
				}
				for _, s := range []int{-1, 0} {
					c := base
					c.Stage, c.Stop = "fold", s
					add(c)
				}
				for ops := 1; ops <= 2; ops++ {
					c := base
					c.Stage, c.Ops = "throttle", ops
					for _, s := range stops(min(k, 2)) {
						c.Stop = s
						add(c)
					}
				}
			}
			// Join: the inputs are the k dimension
			for _, ins := range [][]int{{}, {1}, {2}, {1, 1}, {2, 1}, {1, 1, 1}} {
				if tier == "quick" && len(ins) == 3 && cancel {
					continue
				}
				c := stage.Cfg{Stage: "join", Cap: cp, Cancel: cancel, Inputs: ins}
				tot := 0
				for _, n := range ins {
					tot += n
				}
				for _, s := range stops(min(tot, 2)) {
					c.Stop = s
					add(c)
				}
			}
			// generators end only by cancel, by a consumer that leaves, or by a fail-fast error
			for _, st := range []string{"emit", "unfold"} {
				for _, mode := range []string{"lift", "try"} {
					if st == "unfold" && mode == "try" {
						continue
					}
					masks := []int{0, 1 << 1, 1 << 2, 1<<1 | 1<<2}
					if st == "emit" {
						masks = []int{0, 1, 1 << 1, 1 | 1<<2}
					}
					for _, m := range masks {
						c := stage.Cfg{Stage: st, Cap: cp, Cancel: cancel, Mode: mode, Mask: m, ErrRd: "reader"}
						for _, s := range []int{0, 1, 2} {
							c.Stop, c.CancelAfter = s, 0
							add(c)
							if mode == "try" && m != 0 && cancel {
								// nobody reads the error channel: the generator may wait with its error, the cancel must still end it
								c.ErrRd = "none"
								add(c)
								c.ErrRd = "reader"
							}
						}
						if !cancel {
							for _, ca := range []int{1, 2} {
								c.Stop, c.CancelAfter = ca+1, ca // cancels after ca values, takes at most one more, leaves
								add(c)
							}
						}
						if mode == "lift" && m != 0 {
							c.Stop, c.CancelAfter = -1, 0
							add(c)
						}
						if !cancel && m == 0 {
							c.Stop, c.CancelAfter = -1, 1
							add(c)
						}
					}
				}
			}
		}
	}
	// the context is already cancelled when the stage is created: whatever shortcut a stage takes for that case, every
	// returned channel closes and nothing stays behind, with consumers that drain and with consumers that never show up
	for cp := 0; cp <= 1; cp++ {
		for k := 0; k <= 2; k++ {
			for _, stop := range []int{-1, 0} {
				pc := stage.Cfg{K: k, Cap: cp, PreCancel: true, Stop: stop, Stop2: stop}
				for _, st := range []string{"map", "fmap"} {
					for _, mode := range []string{"lift", "try"} {
						for _, rd := range []string{"reader", "none", "stderr"} {
							if rd == "stderr" && (st == "fmap" || mode == "lift") {
								continue
							}
							c := pc
							c.Stage, c.Mode, c.ErrRd, c.Mask = st, mode, rd, 1<<1
							add(c)
						}
					}
				}
				for _, st := range []string{"filter", "takewhile", "take", "partition", "fold", "throttle"} {
					c := pc
					c.Stage, c.Mask, c.N, c.Ops = st, 0b1110, 1, 1
					add(c)
				}
				if stop == -1 {
					for _, st := range []string{"foreach", "void"} {
						c := pc
						c.Stage = st
						add(c)
					}
				}
				if k > 0 {
					continue
				}
				for _, ins := range [][]int{{}, {1}, {1, 2}} {
					c := stage.Cfg{Stage: "join", Cap: cp, PreCancel: true, Inputs: ins, Stop: stop}
					add(c)
				}
				for _, st := range []string{"emit", "unfold"} {
					for _, mode := range []string{"lift", "try"} {
						if st == "unfold" && mode == "try" {
							continue
						}
						for _, rd := range []string{"reader", "none"} {
							m := 1
							if st == "unfold" {
								m = 1 << 1
							}
							add(stage.Cfg{Stage: st, Cap: cp, PreCancel: true, Mode: mode, Mask: m, ErrRd: rd, Stop: 0})
							add(stage.Cfg{Stage: st, Cap: cp, PreCancel: true, Mode: mode, Mask: 0, ErrRd: rd, Stop: 0})
						}
					}
				}
			}
		}
	}
	// Take over Seq with argument lists longer than any plausible internal buffer
	for _, k := range []int{3, 130, 1100, 2100} {
		add(stage.Cfg{Stage: "seqtake", K: k, N: 2, Stop: -1, Stop2: -1})
	}
	// more failures than any plausible fixed number the logger or the error buffer could be sized for
	devMode = 1
	for _, k := range []int{40, 80, 140} {
		all := 0
		for x := 1; x <= k && x < 62; x++ {
			all |= 1 << x
		}
		add(stage.Cfg{Stage: "map", Mode: "try", K: k, Cap: 0, Mask: all, FailFrom: 62, ErrRd: "stderr", Stop: -1, Stop2: -1})
		add(stage.Cfg{Stage: "map", Mode: "try", K: k, Cap: 2, Mask: all, FailFrom: 62, ErrRd: "reader", Stop: -1, Stop2: -1})
	}
	devMode = -1
	for cp := 0; cp <= 1; cp++ {
		for _, rd := range []string{"reader", "none"} {
			for _, ff := range []int{1, 2} {
				for _, s := range []int{0, 1} {
					add(stage.Cfg{Stage: "emit", Cap: cp, Cancel: true, Mode: "try", FailFrom: ff, ErrRd: rd, Stop: s})
				}
			}
		}
		// Throttling with a zero interval is a plain copy (no pacing), not a crash
		for k := 0; k <= 2; k++ {
			for ops := 1; ops <= 2; ops++ {
				for _, cancel := range []bool{false, true} {
					add(stage.Cfg{Stage: "throttle", K: k, Cap: cp, Ops: ops, Interval: -1, Cancel: cancel, Stop: -1, Stop2: -1})
				}
			}
		}
	}
	return out
}

func propC06() drv.Property {
	return table("C06",
		"one case = one stage (Map, FMap in Lift/Try mode with every failure pattern, StdErr, Filter, TakeWhile, Take, Partition, ForEach, Void, Fold, Throttling, Join with 0..3 inputs, Emit, Unfold) x input length k<=2 (3) x capacity 0..1 x consumer behaviour per output (drains / absent / takes m then leaves) x canceller absent or free; producer(s), consumers, error reader and canceller are free threads, so every order of send / close / receive / cancel is an interleaving; all interleavings explored (state-cached, unbounded; bound 3 for k=3 Partition/Join/Throttling); non-trivial = more than one distinct terminal outcome",
		commonAssumptions, c06Scenarios)
}
