package main

import "verif/drv"

func props() []drv.Property {
	return []drv.Property{
		propC05(), propC06(), propC07(), propC08(), propC09(), propC10(), propC11(), propC12(), propC13(),
	}
}
