package main

import "verif/drv"

func props() []drv.Property {
	return []drv.Property{
		propC08(),
	}
}
