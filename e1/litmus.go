package main

import (
	"encoding/json"
	"fmt"
	"os"
	"sort"

	"verif/explore"
	"verif/rt"
	"vharness/litmus"
)

// runLitmus explores every litmus program exhaustively on the simulated runtime and writes the outcome sets.
func runLitmus(path string) {
	type res struct {
		Outcomes   []string `json:"outcomes"`
		States     int      `json:"states"`
		Executions int      `json:"executions"`
		Exhaustive bool     `json:"exhaustive"`
	}
	out := map[string]res{}
	for _, p := range litmus.Programs {
		p := p
		set := map[string]bool{}
		e := &explore.Explorer{Bound: -1, Cache: true, MaxViol: 1,
			Root: func() { rt.Log("out", p.F()) },
			Check: func(x *rt.Exec) string {
				for _, t := range x.Threads {
					if t.Panic != nil {
						return fmt.Sprintf("panic: %v", t.Panic)
					}
					for _, ev := range t.Log {
						if ev.Kind == "out" {
							set[fmt.Sprint(ev.Args[0])] = true
						}
					}
					if t.AtEnd != "" && t.ID == "0" {
						return "root blocked at " + t.AtEnd
					}
				}
				return ""
			},
		}
		e.Explore()
		if len(e.Violations) > 0 {
			set["!"+e.Violations[0].Msg] = true
		}
		var ks []string
		for k := range set {
			ks = append(ks, k)
		}
		sort.Strings(ks)
		out[p.Name] = res{ks, len(e.States), e.Executions, e.Exhaustive}
	}
	b, _ := json.MarshalIndent(out, "", " ")
	if err := os.WriteFile(path, b, 0o644); err != nil {
		fmt.Fprintln(os.Stderr, err)
		os.Exit(2)
	}
}
