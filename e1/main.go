// e1drv: explores the translated pipe / fork code under the simulated runtime.
// This package is compiled inside the scratch tree produced by ./check, where
// the import paths github.com/fogfish/golem/pipe/v2[/fork] and vharness/...
// resolve to the gosim translations of the current /repo sources.
package main

import (
	"encoding/json"
	"os"
	"time"

	"verif/drv"
	"verif/e1lib"
	"verif/env"
)

// table builds a drv.Property from a scenario table.
func table(id, rule string, assumptions []string, gen func(tier string) []e1lib.Scenario) drv.Property {
	scenarioTables[id] = gen
	cache := map[string][]e1lib.Scenario{}
	get := func(tier string) []e1lib.Scenario {
		if s, ok := cache[tier]; ok {
			return s
		}
		s := gen(tier)
		cache[tier] = s
		return s
	}
	return drv.Property{
		ID: id, Level: "model_checking", Rule: rule, Assumptions: assumptions,
		Cases: func(tier string) (int, func(int) string) {
			s := get(tier)
			return len(s), func(i int) string { return s[i].Name }
		},
		Run: func(tier string, i int, deadline time.Time) drv.Result {
			return get(tier)[i].Run(deadline)
		},
		Replay: func(tier string, i int, raw json.RawMessage) (string, string, error) {
			return get(tier)[i].Replay(raw)
		},
	}
}

var commonAssumptions = []string{
	"the gosim translation preserves the library's statements (audited by construct counts; sequential code is copied verbatim)",
	"the simulated runtime rt implements Go's channel/select/close/WaitGroup semantics under sequential consistency (litmus suite, rt self-test)",
	"threads share state only through channels, WaitGroups and env.Shared cells (data races are looked for separately by the free-running -race pass)",
	"state merging relies on a 128-bit hash of per-thread observation histories and channel contents",
}

// scenarioTables gives the free-running pass access to the same scenario lists.
var scenarioTables = map[string]func(tier string) []e1lib.Scenario{}

func main() {
	if !env.Sim {
		realMain()
		return
	}
	if len(os.Args) == 3 && os.Args[1] == "-litmus" {
		runLitmus(os.Args[2])
		return
	}
	drv.Main(props()...)
}
