module e1drv

go 1.24
