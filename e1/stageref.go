package main

import (
	"fmt"
	"sort"
	"strings"

	"verif/obs"
	"vharness/stage"
)

// ref is the list-function reference of a stage configuration: what a
// consumer that drains every output of an uncancelled run must see.
type ref struct {
	outs     map[string][]string // per output, the complete sequence
	errs     []string            // complete error sequence
	calls    []string            // the user function's call sequence
	infinite bool                // generator without a natural end
	names    []string            // output names in a fixed order
}

const genHorizon = 12 // reference length for the infinite generators

func stageRef(c stage.Cfg) ref {
	r := ref{outs: map[string][]string{}}
	add := func(n string, v any) { r.outs[n] = append(r.outs[n], fmt.Sprint(v)) }
	call := func(x int) { r.calls = append(r.calls, fmt.Sprint(x)) }
	fails := func(x int) bool {
		return c.Mode != "pure" && ((x < 62 && stage.Bit(c.Mask, x)) || (c.FailFrom > 0 && x >= c.FailFrom))
	}
	if c.Any {
		// identity functions over `any` elements: every output is the input, nil interface values included
		r.names = []string{"got"}
		switch c.Stage {
		case "partition":
			r.names = []string{"l", "r"}
			for x := 1; x <= c.K; x++ {
				add("l", stage.AnyElem(x))
			}
		case "unfold":
			r.infinite = true
			for x := 1; x <= genHorizon; x++ {
				add("got", stage.AnyElem(x))
			}
		default:
			for x := 1; x <= c.K; x++ {
				add("got", stage.AnyElem(x))
			}
		}
		for _, n := range r.names {
			if r.outs[n] == nil {
				r.outs[n] = []string{}
			}
		}
		return r
	}
	switch c.Stage {
	case "map", "map2":
		r.names = []string{"got"}
		for x := 1; x <= c.K; x++ {
			call(x)
			if fails(x) {
				r.errs = append(r.errs, stage.Fail(x).Error())
				if c.Mode != "try" {
					break
				}
				continue
			}
			add("got", x*10)
		}
	case "fmap":
		r.names = []string{"got"}
		for x := 1; x <= c.K; x++ {
			call(x)
			for j := 0; j < x%3; j++ {
				add("got", x*10+j)
			}
			if fails(x) {
				r.errs = append(r.errs, stage.Fail(x).Error())
				if c.Mode != "try" {
					break
				}
			}
		}
	case "filter-alt":
		r.names = []string{"got"}
		for x := 1; x <= c.K; x++ {
			call(x)
			if x%2 == 1 {
				add("got", x)
			}
		}
	case "takewhile-alt":
		r.names = []string{"got"}
		for x := 1; x <= c.K; x++ {
			call(x)
			if x > 2 {
				break
			}
			add("got", x)
		}
	case "partition-alt":
		r.names = []string{"l", "r"}
		for x := 1; x <= c.K; x++ {
			call(x)
			if x%2 == 1 {
				add("l", x)
			} else {
				add("r", x)
			}
		}
	case "foreach-rep":
		r.names = []string{"done"}
		for i := 2; i < 2+2*c.K; i++ {
			call(i / 2)
		}
	case "map-rep":
		r.names = []string{"got"}
		for i := 2; i < 2+2*c.K; i++ {
			call(i / 2)
			add("got", i-1)
		}
	case "filter":
		r.names = []string{"got"}
		for x := 1; x <= c.K; x++ {
			call(x)
			if stage.Bit(c.Mask, x) {
				add("got", x)
			}
		}
	case "takewhile":
		r.names = []string{"got"}
		for x := 1; x <= c.K; x++ {
			call(x)
			if !stage.Bit(c.Mask, x) {
				break
			}
			add("got", x)
		}
	case "take", "seqtake":
		r.names = []string{"got"}
		for x := 1; x <= c.K && x <= c.N; x++ {
			add("got", x)
		}
	case "partition":
		r.names = []string{"l", "r"}
		for x := 1; x <= c.K; x++ {
			call(x)
			if stage.Bit(c.Mask, x) {
				add("l", x)
			} else {
				add("r", x)
			}
		}
	case "foreach":
		r.names = []string{"done"}
		for x := 1; x <= c.K; x++ {
			call(x)
		}
	case "void":
		r.names = []string{"done"}
	case "fold":
		r.names = []string{"got"}
		add("got", foldAff(c.K))
	case "fold100":
		r.names = []string{"got"}
		acc := 100
		for x := 1; x <= c.K; x++ {
			acc = acc*2 + x
		}
		add("got", acc)
	case "seq":
		r.names = []string{"got"}
		for x := 1; x <= c.K; x++ {
			add("got", x)
		}
	case "throttle":
		r.names = []string{"got"}
		for x := 1; x <= c.K; x++ {
			add("got", x)
		}
	case "unfold":
		r.names = []string{"got"}
		r.infinite = true
		for x := 1; x <= genHorizon; x++ {
			add("got", x)
			call(x)
			if stage.Bit(c.Mask, x) {
				r.errs = append(r.errs, stage.Fail(x).Error())
				r.infinite = false
				break
			}
		}
	case "emit":
		r.names = []string{"got"}
		r.infinite = true
		for i := 0; i < genHorizon; i++ {
			call(i)
			if fails(i) {
				r.errs = append(r.errs, stage.Fail(i).Error())
				if c.Mode != "try" {
					r.infinite = false
					break
				}
				continue
			}
			add("got", i*10)
		}
	case "join":
		r.names = []string{"got"}
	}
	for _, n := range r.names {
		if r.outs[n] == nil {
			r.outs[n] = []string{}
		}
	}
	return r
}

// foldAff is the left fold of the affine maps x -> (i+1)x+1 for i = 1..k (pairwise non-commuting) starting from the identity.
func foldAff(k int) stage.Aff {
	a, b := 1, 0
	for x := 1; x <= k; x++ {
		ga, gb := x+1, 1
		a, b = a*ga, ga*b+gb
	}
	return stage.Aff{A: a, B: b}
}

func hasErrCh(st string) bool {
	return st == "map" || st == "map2" || st == "fmap" || st == "unfold" || st == "emit" || st == "map-rep"
}

func stageName(c stage.Cfg) string {
	var b strings.Builder
	fmt.Fprintf(&b, "%s k=%d cap=%d", c.Stage, c.K, c.Cap)
	if c.Mode != "" {
		fmt.Fprintf(&b, " mode=%s", c.Mode)
	}
	fmt.Fprintf(&b, " mask=%b", c.Mask>>1<<1|c.Mask&1)
	if c.Stage == "take" {
		fmt.Fprintf(&b, " n=%d", c.N)
	}
	if c.Stage == "join" {
		fmt.Fprintf(&b, " inputs=%v", c.Inputs)
	}
	if c.Stage == "throttle" {
		fmt.Fprintf(&b, " ops=%d", c.Ops)
	}
	fmt.Fprintf(&b, " stop=%d", c.Stop)
	if c.Stage == "partition" {
		fmt.Fprintf(&b, "/%d", c.Stop2)
	}
	if c.Cancel {
		b.WriteString(" cancel")
	}
	if c.CancelAfter > 0 {
		fmt.Fprintf(&b, " cancel-after=%d", c.CancelAfter)
	}
	if c.ErrRd != "" {
		fmt.Fprintf(&b, " err=%s", c.ErrRd)
	}
	if c.Idle {
		b.WriteString(" producer-goes-idle")
	}
	if c.PreCancel {
		b.WriteString(" context-cancelled-before-the-call")
	}
	if c.Background {
		b.WriteString(" context.Background")
	}
	if c.Late > 0 {
		fmt.Fprintf(&b, " consumer-late-before-receive-%d", c.LateAt)
	}
	if c.Dup {
		b.WriteString(" same-channel-twice")
	}
	if c.Interval != 0 {
		fmt.Fprintf(&b, " interval=%d", max(c.Interval, 0))
	}
	if c.FailFrom > 0 {
		fmt.Fprintf(&b, " fails-from=%d", c.FailFrom)
	}
	if c.Any {
		b.WriteString(" elements=any/nil")
	}
	return b.String()
}

// joinRef returns the elements of every input of a join configuration.
func joinRef(c stage.Cfg) (per [][]string, all []string) {
	for i, n := range c.Inputs {
		var xs []string
		for j := 0; j < n; j++ {
			if c.Any && i == 0 && j == 0 {
				xs = append(xs, "<nil>")
				continue
			}
			xs = append(xs, fmt.Sprint(10*(i+1)+1+j))
		}
		per = append(per, xs)
		all = append(all, xs...)
	}
	sort.Strings(all)
	return
}

// joinOrder checks that got is an interleaving of prefixes of the inputs (per-input order kept, nothing invented or duplicated).
func joinOrder(got []string, per [][]string) string {
	pos := make([]int, len(per))
next:
	for _, g := range got {
		for i, xs := range per {
			if pos[i] < len(xs) && xs[pos[i]] == g {
				pos[i]++
				continue next
			}
		}
		return fmt.Sprintf("received %v: element %s is duplicated, invented or out of its input's order (inputs %v)", got, g, per)
	}
	return ""
}

func sorted(xs []string) []string {
	ys := append([]string{}, xs...)
	sort.Strings(ys)
	return ys
}

var _ = obs.Equal
