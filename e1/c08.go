package main

import (
	"fmt"

	"verif/drv"
	"verif/e1lib"
	"verif/obs"
	"vharness/unbound"
)

func c08Check(c unbound.Cfg) func(o *obs.Obs) string {
	return func(o *obs.Obs) string {
		tag := fmt.Sprintf("C08/cap=%d", c.Cap)
		if p := o.LibPanic(); p != "" {
			if c.CloseSender {
				return "C08/close-by-sender/panic|" + p
			}
			return tag + "/panic|" + p
		}
		got := o.Ints("got")
		sent1, sent2 := o.Ints("sent"), o.Ints("sent2")
		cancelled := o.Has("cancel")
		eof := o.Has("eof")
		// FIFO, no duplicate, no invention: per sender the received values are 1,2,3.. / 101,102,..
		n1, n2 := 0, 0
		for _, v := range got {
			switch {
			case v == n1+1:
				n1++
			case v == 101+n2:
				n2++
			default:
				return fmt.Sprintf("%s/order|received %v: not the sent values in send order, each once", tag, got)
			}
		}
		if !o.Sim {
			// on the real runtime the "sent" log entry may lag behind the receive
			sent1, sent2 = nil, nil
		} else if n1 > len(sent1) || n2 > len(sent2) {
			// a value can be received before its sender logs the completed send, but only the one in flight
			return fmt.Sprintf("%s/invented|received %v but only %v %v were sent", tag, got, sent1, sent2)
		}
		if c.Recv == -1 {
			switch {
			case c.CloseSender:
				if !o.Has("closed") && !cancelled {
					return fmt.Sprintf("C08/close-by-sender/blocked|sender could not finish and close: sent %v", sent1)
				}
				if !cancelled {
					if !eof {
						return fmt.Sprintf("C08/close-by-sender/no-eof|send side closed after %d sends but the receive side never closes (received %v)", c.Sends, got)
					}
					if len(got) != c.Sends {
						return fmt.Sprintf("C08/close-by-sender/lost|send side closed after %d completed sends, receiver saw close after %v", c.Sends, got)
					}
				}
			case !cancelled:
				if o.Sim && (len(sent1) != c.Sends || len(sent2) != c.Sends2) {
					return fmt.Sprintf("%s/sender-blocked|sender did not finish: sent %v %v", tag, sent1, sent2)
				}
				if len(got) != c.Sends+c.Sends2 {
					return fmt.Sprintf("%s/lost|all %d sends completed, no cancel, receiver drained only %v", tag, c.Sends+c.Sends2, got)
				}
			}
			if cancelled {
				k := o.Arg("cancel", 0, 1)
				if !o.Sim {
					k = o.Arg("cancel", 0, 0)
				}
				if !eof {
					return fmt.Sprintf("C08/cancel/no-eof|cancelled with a draining receiver but the receive side never closes (received %v)", got)
				}
				if len(got) < k {
					return fmt.Sprintf("C08/cancel/lost/cap>0=%v|%d sends had completed when the context was cancelled, receive side closed after only %v", c.Cap > 0, k, got)
				}
			}
		} else if !cancelled && o.Sim {
			if len(sent1) != c.Sends || len(sent2) != c.Sends2 || (c.CloseSender && !o.Has("closed")) {
				return fmt.Sprintf("%s/sender-waits|receiver took %d values and left, no cancel: sender finished only %v %v of %d+%d sends", tag, c.Recv, sent1, sent2, c.Sends, c.Sends2)
			}
		}
		return ""
	}
}

// c08Done: the terminating real-runtime scenarios are those where the receiver sees the close. Cancel
// scenarios are left to the exhaustive exploration only: on cancel the pump closes the send side while the
// sender may be sending, which the race detector reports as a race between send and close; that is how
// pipe.New is designed (a sender may panic after cancel) and not something C08 speaks about.
func c08Done(c unbound.Cfg, lifo bool) []string {
	if !lifo || c.Recv != -1 || !c.CloseSender || c.Cancel {
		return nil
	}
	return []string{"eof"}
}

func c08Scenarios(tier string) []e1lib.Scenario {
	maxS, maxCap := 3, 2
	if tier == "thorough" {
		maxS, maxCap = 5, 3
	}
	var out []e1lib.Scenario
	bound := -1
	add := func(c unbound.Cfg, lifo bool) {
		pol := "fresh"
		if lifo {
			pol = "lifo"
		}
		out = append(out, e1lib.Scenario{
			Name:     fmt.Sprintf("new cap=%d sends=%d+%d close=%v cancel=%v recv=%d pool=%s%s%s", c.Cap, c.Sends, c.Sends2, c.CloseSender, c.Cancel, c.Recv, pol, map[bool]string{true: fmt.Sprintf(" bound=%d", bound)}[bound >= 0], map[bool]string{true: " elements=any/nil"}[c.Any]+map[bool]string{true: fmt.Sprintf(" receiver-sleeps=%dns", c.RecvGap)}[c.RecvGap > 0]),
			Root:     func() { unbound.Scenario(c) },
			Check:    c08Check(c),
			PoolLIFO: lifo, Bound: bound, Deviations: bound >= 0, Sample: c, RealDone: c08Done(c, lifo),
		})
	}
	for cp := 0; cp <= maxCap; cp++ {
		for s := 0; s <= maxS; s++ {
			for _, cl := range []bool{false, true} {
				for _, cn := range []bool{false, true} {
					for rv := -1; rv <= s; rv++ {
						for _, lifo := range []bool{true, false} {
							add(unbound.Cfg{Cap: cp, Sends: s, CloseSender: cl, Cancel: cn, Recv: rv}, lifo)
						}
					}
				}
			}
		}
	}
	// element type any with nil interface values among the values sent
	for cp := 0; cp <= 1; cp++ {
		for sn := 1; sn <= 3; sn++ {
			for _, cl := range []bool{false, true} {
				for _, cn := range []bool{false, true} {
					add(unbound.Cfg{Cap: cp, Sends: sn, CloseSender: cl, Cancel: cn, Recv: -1, Any: true}, true)
				}
			}
		}
	}
	// long runs of one sender: a backlog that outgrows any small fixed-size buffer behind the queue (8, 16, 32
	// slots) while the receiver has already taken a few values, i.e. at every head position
	long, dev := []int{9, 17, 33}, 3
	if tier == "thorough" {
		long, dev = []int{9, 17, 33, 65}, 4
	}
	for _, s := range long {
		for cp := 0; cp <= 1; cp++ {
			bound = dev - s/33 // deviation bound (one less for the longest runs): the executions are 60-500 steps long and their number grows with length^bound
			for _, cn := range []bool{false, true} {
				for _, cl := range []bool{false, true} {
					add(unbound.Cfg{Cap: cp, Sends: s, CloseSender: cl, Cancel: cn, Recv: -1}, true)
				}
			}
			add(unbound.Cfg{Cap: cp, Sends: s, Recv: s / 2}, false)
		}
	}
	// a receiver that takes seconds (of virtual time) per value: however long the backlog takes to drain after a cancel or a
	// close, every completed send is delivered - no timer may cut the flush short
	bound = -1
	for cp := 0; cp <= 1; cp++ {
		for _, gap := range []int{2e9, 90e9} {
			for _, sn := range []int{2, 4} {
				add(unbound.Cfg{Cap: cp, Sends: sn, Cancel: true, Recv: -1, RecvGap: gap}, true)
				add(unbound.Cfg{Cap: cp, Sends: sn, CloseSender: true, Recv: -1, RecvGap: gap}, true)
				out[len(out)-2].RealDone, out[len(out)-1].RealDone = nil, nil // the receiver really sleeps on the real runtime
			}
		}
	}
	// a backlog far beyond any plausible high-water mark (2^16, 2^17 values and a little more) while nobody receives: the
	// sender still never waits. One execution each (the default schedule, no deviation): the point is the size
	huge := []int{1<<16 + 64}
	if tier == "thorough" {
		huge = []int{1<<16 + 64, 1<<17 + 64, 1<<20 + 64}
	}
	for _, s := range huge {
		for cp := 0; cp <= 1; cp++ {
			bound = 0
			add(unbound.Cfg{Cap: cp, Sends: s, Recv: 0}, true)
			out[len(out)-1].Horizon = 12 * s
		}
	}
	bound = -1
	for cp := 0; cp <= 1; cp++ {
		for _, cn := range []bool{false, true} {
			for _, s := range [][2]int{{1, 1}, {2, 1}, {2, 2}} {
				if tier == "quick" && s == [2]int{2, 2} && cn {
					continue
				}
				add(unbound.Cfg{Cap: cp, Sends: s[0], Sends2: s[1], Cancel: cn, Recv: -1}, true)
			}
		}
	}
	return out
}

func propC08() drv.Property {
	return table("C08",
		"one case = one closed system around pipe.New (capacity, number of sends by one or two senders, sender closes or not, free canceller or not, receiver drains / takes m then leaves / absent, sync.Pool recycling policy); every interleaving of the translated library goroutine and the environment threads is explored with state caching, no preemption bound; a case is non-trivial when its executions end in more than one distinct terminal outcome",
		commonAssumptions, c08Scenarios)
}
