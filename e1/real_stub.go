//go:build sim

package main

func realMain() {}
