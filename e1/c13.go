package main

import (
	"fmt"

	"verif/drv"
	"verif/e1lib"
	"verif/obs"
	"vharness/timed"
)

// C13: exactly the input in order, closed when the input closes; before cancel no window of length
// interval sees more than 2*ops+1+c deliveries; saturated: element i delivered in
// [floor(i/ops)*I, floor(i/ops)*I + I].
func c13Check(c timed.Cfg) func(o *obs.Obs) string {
	bound := 2*c.Ops + 1 + c.Cap
	saturated := c.ProdGap == 0 && c.CancelAt < 0
	for _, g := range c.ConsGaps {
		if g != 0 {
			saturated = false
		}
	}
	var want []string
	for i := 0; i < c.K; i++ {
		want = append(want, fmt.Sprint(i))
	}
	return func(o *obs.Obs) string {
		partial := o.Horizon // the execution was cut at the step horizon: only the prefix-closed clauses apply
		tag := fmt.Sprintf("C13/ops=%d/cap=%d", c.Ops, c.Cap)
		if p := o.AnyPanic(); p != "" {
			return tag + "/panic|" + p
		}
		got := o.Strs("got")
		if !obs.IsPrefix(got, want) {
			return fmt.Sprintf("%s/order|received %v: not the input %v in order, each once", tag, got, want)
		}
		cancelled := o.Has("cancel")
		if !cancelled && !partial {
			if len(got) != c.K || !o.Has("got-eof") {
				return fmt.Sprintf("%s/incomplete|input of %d elements closed, no cancel: received %v, closed=%v; library: %v", tag, c.K, got, o.Has("got-eof"), o.LibBlocked())
			}
		}
		if !o.Sim {
			return ""
		}
		// window bound; deliveries at the very instant of the cancel may already follow it (after cancel
		// the pacer closes its token channel and the stage is no longer throttled), so only deliveries
		// strictly earlier than the cancel are counted
		I := max(int64(c.Interval), 0) // an interval below zero is no pacing, like zero
		ev := o.Logs["got"]
		var cancelT int64 = 1 << 62
		if cancelled {
			cancelT = o.Logs["cancel"][0].Time
		}
		for a := range ev {
			n := 0
			for b := a; b < len(ev) && ev[b].Time < ev[a].Time+I && ev[b].Time < cancelT; b++ {
				n++
			}
			if ev[a].Time < cancelT && n > bound {
				return fmt.Sprintf("%s/rate|%d deliveries in the window [%d,%d) of length interval=%d: more than 2*ops+1+c = %d (delivery times %v)", tag, n, ev[a].Time, ev[a].Time+I, I, bound, times(ev))
			}
		}
		if saturated {
			for i, e := range ev {
				lo := int64(i/c.Ops) * I
				if e.Time >= cancelT {
					break // from the instant of the cancel (or deadline) on the stage is no longer throttled
				}
				if e.Time < lo || e.Time > lo+I {
					return fmt.Sprintf("%s/latency|saturated: element %d delivered at t=%d, want within [%d,%d] (delivery times %v)", tag, i, e.Time, lo, lo+I, times(ev))
				}
			}
		}
		if cancelled && !partial {
			if lb := o.LibBlocked(); len(lb) > 0 {
				return fmt.Sprintf("%s/cancel-leak|after cancel: %v", tag, lb)
			}
			if !o.Closed["got"] {
				return tag + "/cancel-not-closed|output not closed after cancel"
			}
		}
		return ""
	}
}

func times(ev []obs.Event) []int64 {
	var t []int64
	for _, e := range ev {
		t = append(t, e.Time)
	}
	return t
}

func c13Count(c timed.Cfg) func(o *obs.Obs, counters, maxima map[string]int) {
	return func(o *obs.Obs, counters, maxima map[string]int) {
		if o.Has("cancel") {
			return
		}
		I := max(int64(c.Interval), 0)
		ev := o.Logs["got"]
		best := 0
		for a := range ev {
			n := 0
			for b := a; b < len(ev) && ev[b].Time < ev[a].Time+I; b++ {
				n++
			}
			if n > best {
				best = n
			}
		}
		k := fmt.Sprintf("max_window ops=%d cap=%d (bound %d)", c.Ops, c.Cap, 2*c.Ops+1+c.Cap)
		if best > maxima[k] {
			maxima[k] = best
		}
	}
}

func c13Scenarios(tier string) []e1lib.Scenario {
	var out []e1lib.Scenario
	const I = 4
	add := func(c timed.Cfg) {
		chk := c13Check(c)
		out = append(out, e1lib.Scenario{Name: timedName(c), Root: func() { timed.Scenario(c) }, Check: chk, OnHorizon: chk, Count: c13Count(c), Bound: -1, Sample: c,
			Nontrivial: func(outcomes, execs, states int) bool { return true }})
	}
	maxOps := 3
	if tier == "thorough" {
		maxOps = 4
	}
	for ops := 1; ops <= maxOps; ops++ {
		for cp := 0; cp <= 2; cp++ {
			k := 2*ops + cp + 3
			for _, pg := range []int{0, I / 2, I, 3 * I} {
				if tier == "quick" && pg == 3*I && ops == 3 {
					continue
				}
				// constant consumer paces
				for _, g := range []int{0, I / 2, I} {
					gaps := make([]int, k)
					for i := range gaps {
						gaps[i] = g
					}
					add(timed.Cfg{Kind: "throttle", Ops: ops, Interval: I, Cap: cp, K: k, ProdGap: pg, ConsGaps: gaps, CancelAt: -1})
				}
				// take j, go idle for G, then burst (pace 0) - for every j
				for j := 0; j < k; j++ {
					for _, G := range []int{I / 2, I, I + 1, 2 * I, 10 * I, 10*I + 1} {
						if tier == "quick" && (G == I+1 || (G == 2*I && ops == 3)) {
							continue
						}
						gaps := make([]int, k)
						gaps[j] = G
						add(timed.Cfg{Kind: "throttle", Ops: ops, Interval: I, Cap: cp, K: k, ProdGap: pg, ConsGaps: gaps, CancelAt: -1})
					}
				}
				// two idle periods
				if tier == "thorough" {
					for j := 0; j < k; j++ {
						for j2 := j + 1; j2 < k; j2++ {
							gaps := make([]int, k)
							gaps[j], gaps[j2] = 10*I, 10*I
							add(timed.Cfg{Kind: "throttle", Ops: ops, Interval: I, Cap: cp, K: k, ProdGap: pg, ConsGaps: gaps, CancelAt: -1})
						}
					}
				}
			}
			// a context with a deadline instead of a cancel: the stage is throttled right up to the deadline
			if ops <= 2 && cp <= 1 {
				for _, T := range []int{I + 1, 2*I + 2, 3*I - 1, 3*I + 2, 5 * I} {
					for _, g := range []int{0, I} {
						gaps := make([]int, k+4)
						gaps[0] = g
						add(timed.Cfg{Kind: "throttle", Ops: ops, Interval: I, Cap: cp, K: k + 4, ConsGaps: gaps, CancelAt: -1, Timeout: T})
					}
				}
			}
			// cancel at grid points
			for at := 0; at <= 3*I; at += 2 {
				gaps := make([]int, k)
				gaps[0] = I
				add(timed.Cfg{Kind: "throttle", Ops: ops, Interval: I, Cap: cp, K: k, ConsGaps: gaps, CancelAt: at})
			}
		}
	}
	// under context.Background() (never cancelled, Done() is nil; the pacer then runs for ever, so these executions are cut at
	// the step horizon and judged by the prefix-closed clauses: order and rate), and with intervals of everyday magnitude
	for ops := 1; ops <= 3; ops++ {
		for cp := 0; cp <= 1; cp++ {
			k := 2*ops + cp + 3
			for _, j := range []int{-1, 0, ops, ops + 1} {
				for _, G := range []int{10 * I, 10*I + 1, 10*I + 3, I + 1} { // idle periods that end on and off the interval grid
					gaps := make([]int, k)
					if j >= 0 {
						gaps[j] = G
					} else if G != 10*I {
						continue
					}
					add(timed.Cfg{Kind: "throttle", Ops: ops, Interval: I, Cap: cp, K: k, ConsGaps: gaps, CancelAt: -1, Background: true})
					out[len(out)-1].Horizon = 600
				}
			}
		}
	}
	for _, iv := range []int{190e6, 1500e6} {
		for ops := 1; ops <= 2; ops++ {
			k := 2*ops + 3
			for _, g := range []int{0, iv / 2} {
				gaps := make([]int, k)
				for i := range gaps {
					gaps[i] = g
				}
				add(timed.Cfg{Kind: "throttle", Ops: ops, Interval: iv, Cap: 0, K: k, ConsGaps: gaps, CancelAt: -1})
			}
			gaps := make([]int, k)
			gaps[1] = 10 * iv
			add(timed.Cfg{Kind: "throttle", Ops: ops, Interval: iv, Cap: 0, K: k, ConsGaps: gaps, CancelAt: -1})
		}
	}
	// an interval of zero (or below) is "no pacing": the stage is then a plain copy - every element, in order, and the
	// output closes when the input does (the rate clauses are empty for a window of length zero)
	for _, iv := range []int{0, -1} {
		for ops := 1; ops <= 2; ops++ {
			for cp := 0; cp <= 1; cp++ {
				for _, pg := range []int{0, 2} {
					for _, g := range []int{0, 3} {
						gaps := []int{g, 0, g, 0, 0}
						add(timed.Cfg{Kind: "throttle", Ops: ops, Interval: iv, Cap: cp, K: 5, ProdGap: pg, ConsGaps: gaps, CancelAt: -1})
					}
				}
			}
		}
	}
	// operation counts above ten (and not multiples of ten) over a longer interval, whatever slices an implementation may cut it into:
	// saturated consumer, half-interval pace, and one long idle period before a burst
	for _, ops := range []int{11, 15, 25} {
		if tier == "quick" && ops == 25 {
			continue
		}
		const J = 40
		for cp := 0; cp <= 1; cp++ {
			k := 2*ops + cp + 3
			for _, g := range []int{0, J / 10, J / 2} {
				gaps := make([]int, k)
				for i := range gaps {
					gaps[i] = g
				}
				add(timed.Cfg{Kind: "throttle", Ops: ops, Interval: J, Cap: cp, K: k, ConsGaps: gaps, CancelAt: -1})
			}
			for _, j := range []int{0, 1, ops, ops + 1} {
				gaps := make([]int, k)
				gaps[j] = 10 * J
				add(timed.Cfg{Kind: "throttle", Ops: ops, Interval: J, Cap: cp, K: k, ConsGaps: gaps, CancelAt: -1})
			}
		}
	}
	return out
}

func propC13() drv.Property {
	return table("C13",
		"one case = Throttling x ops 1..3 (4 in thorough) x interval 4 ticks x input capacity c 0..2 x k = 2*ops+c+3 elements (more than the window bound) x producer gap {0, I/2, I, 3I} x consumer schedule (constant pace {0, I/2, I}; or take j elements, stay idle for G in {I/2, I, I+1, 2I, 10I}, then burst, for every j; thorough: two idle periods) x cancel at grid points; plus ops 11, 15 (25 in thorough) over an interval of 40 ticks at paces {0, I/10, I/2} and with one idle period of 10 intervals; virtual clock, every interleaving at equal instants explored; the largest window count observed per (ops, c) is reported next to the bound 2*ops+1+c (maxima) so that a vacuous pass is visible",
		append(commonAssumptions, "time is the virtual clock of rt (advances only when no thread can run); the latency upper bound is a statement about that ideal clock"), c13Scenarios)
}
