// Package objdump prints the complete object graph behind a value by
// reflection: every field of every reachable struct (unexported ones included),
// pointers replaced by discovery-order ids, nothing behind interface values
// except their dynamic type. Drivers use it as the canonical state of an
// explicit-state search over a real object, so that hidden fields - including
// ones a future change adds - are part of the state.
package objdump

import (
	"fmt"
	"reflect"
	"sort"
	"strings"
)

// Dump returns the canonical form of the graph reachable from v.
func Dump(v any) string {
	d := &dumper{ids: map[uintptr]int{}}
	d.value(reflect.ValueOf(v))
	for len(d.queue) > 0 {
		p := d.queue[0]
		d.queue = d.queue[1:]
		fmt.Fprintf(&d.b, "\n#%d=", d.ids[p.Pointer()])
		d.value(p.Elem())
	}
	return d.b.String()
}

type dumper struct {
	b     strings.Builder
	ids   map[uintptr]int
	queue []reflect.Value
}

func (d *dumper) value(v reflect.Value) {
	switch v.Kind() {
	case reflect.Ptr:
		if v.IsNil() {
			d.b.WriteString("nil")
			return
		}
		id, ok := d.ids[v.Pointer()]
		if !ok {
			id = len(d.ids) + 1
			d.ids[v.Pointer()] = id
			d.queue = append(d.queue, v)
		}
		fmt.Fprintf(&d.b, "#%d", id)
	case reflect.Struct:
		d.b.WriteString("{")
		for i := 0; i < v.NumField(); i++ {
			fmt.Fprintf(&d.b, "%s:", v.Type().Field(i).Name)
			d.value(v.Field(i))
			d.b.WriteString(" ")
		}
		d.b.WriteString("}")
	case reflect.Slice, reflect.Array:
		if v.Kind() == reflect.Slice && v.IsNil() {
			d.b.WriteString("nil[]")
			return
		}
		d.b.WriteString("[")
		for i := 0; i < v.Len(); i++ {
			d.value(v.Index(i))
			d.b.WriteString(" ")
		}
		d.b.WriteString("]")
	case reflect.Interface:
		if v.IsNil() {
			d.b.WriteString("nil")
		} else {
			d.b.WriteString("iface(" + v.Elem().Type().String() + ")")
		}
	case reflect.Int, reflect.Int8, reflect.Int16, reflect.Int32, reflect.Int64:
		fmt.Fprint(&d.b, v.Int())
	case reflect.Uint, reflect.Uint8, reflect.Uint16, reflect.Uint32, reflect.Uint64, reflect.Uintptr:
		fmt.Fprint(&d.b, v.Uint())
	case reflect.Float32, reflect.Float64:
		fmt.Fprint(&d.b, v.Float())
	case reflect.String:
		fmt.Fprintf(&d.b, "%q", v.String())
	case reflect.Bool:
		fmt.Fprint(&d.b, v.Bool())
	case reflect.Map:
		keys := v.MapKeys()
		var parts []string
		for _, k := range keys {
			sub := &dumper{ids: d.ids}
			sub.value(k)
			sub.b.WriteString("=>")
			sub.value(v.MapIndex(k))
			d.queue = append(d.queue, sub.queue...)
			parts = append(parts, sub.b.String())
		}
		sort.Strings(parts)
		d.b.WriteString("map[" + strings.Join(parts, " ") + "]")
	default:
		d.b.WriteString(v.Kind().String())
	}
}
