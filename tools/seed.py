#!/usr/bin/env python3
"""Helpers for the seeded-change suite (/verif/seeded/<id>/).

  seed.py verify <wt> <patch> <demofile> <destdir> <module> <pattern> <pkg>
      in scratch worktree <wt>: (1) clean tree: demo passes; (2) patch applied: module tests pass, demo fails
  seed.py store <seedid> <property> <patch> <demofile> <destdir> <module> <pattern> <pkg> <needs...>
      copy into /verif/seeded/<seedid>/ with meta.json
  seed.py detect <seedid> <PROP> [tier]
      apply /verif/seeded/<seedid>/patch.diff to /repo, run ./check PROP, undo; prints DETECTED / MISSED
"""
import json, os, shutil, subprocess, sys

def sh(cmd, cwd=None, timeout=1800):
    p = subprocess.run(cmd, cwd=cwd, shell=True, stdout=subprocess.PIPE, stderr=subprocess.STDOUT, text=True, timeout=timeout)
    return p.returncode, p.stdout

def gotest(wt, module, pattern, pkg):
    run = "-run '%s'" % pattern if pattern else ""
    return sh("go test -mod=mod -vet=off -count=1 %s %s" % (run, pkg), cwd=os.path.join(wt, module))

def verify(wt, patch, demo, destdir, module, pattern, pkg):
    sh("git checkout -- . && git clean -fdq", cwd=wt)
    dst = os.path.join(wt, destdir, os.path.basename(demo))
    shutil.copy(demo, dst)
    rc, out = gotest(wt, module, pattern, pkg)
    print("clean tree, demo: rc=%d" % rc)
    ok = rc == 0
    if rc != 0:
        print(out[-1500:])
    os.remove(dst)
    rc, out = sh("git apply %s" % patch, cwd=wt)
    if rc != 0:
        print("patch does not apply:", out); return False
    for attempt in range(3):
        rc, out = gotest(wt, module, "", "./...")
        if rc == 0:
            break
        print("suite attempt %d failed: %s" % (attempt, [l for l in out.splitlines() if l.startswith("--- FAIL")]))
    print("patched, module suite: rc=%d" % rc)
    ok = ok and rc == 0
    shutil.copy(demo, dst)
    rc, out = gotest(wt, module, pattern, pkg)
    print("patched, demo: rc=%d (want non-zero)" % rc)
    if rc != 0:
        print("   ", " | ".join(out.strip().splitlines()[:6])[:600])
    ok = ok and rc != 0
    sh("git checkout -- . && git clean -fdq", cwd=wt)
    print("VERIFIED" if ok else "NOT VERIFIED")
    return ok

def store(seedid, prop, patch, demo, destdir, module, pattern, pkg, needs):
    d = os.path.join("/verif/seeded", seedid)
    os.makedirs(d, exist_ok=True)
    shutil.copy(patch, os.path.join(d, "patch.diff"))
    shutil.copy(demo, os.path.join(d, os.path.basename(demo)))
    notes = patch[:-5] + ".txt"
    meta = {
        "id": seedid, "breaks_property": prop,
        "needs_to_manifest": needs,
        "author_notes": open(notes).read() if os.path.exists(notes) else "",
        "demonstration": {"file": os.path.basename(demo), "copy_to": destdir, "run": "cd <repo>/%s && go test -mod=mod -vet=off -count=1 -run '%s' %s" % (module, pattern, pkg)},
        "confirmed": "clean tree: demonstration passes; patch applied: `go test ./...` of module %s passes and the demonstration fails (tools/seed.py verify, scratch worktree outside /repo)" % module,
        "detected_by": {},
    }
    json.dump(meta, open(os.path.join(d, "meta.json"), "w"), indent=1)
    print("stored", d)

def storedir(seedid, prop, patch, demodir, runcmd, confirmed, needs):
    d = os.path.join("/verif/seeded", seedid)
    os.makedirs(d, exist_ok=True)
    shutil.copy(patch, os.path.join(d, "patch.diff"))
    shutil.copytree(demodir, os.path.join(d, "demo"), dirs_exist_ok=True)
    notes = patch[:-5] + ".txt"
    meta = {
        "id": seedid, "breaks_property": prop, "needs_to_manifest": needs,
        "author_notes": open(notes).read() if os.path.exists(notes) else "",
        "demonstration": {"dir": "demo", "run": runcmd},
        "confirmed": confirmed, "detected_by": {},
    }
    json.dump(meta, open(os.path.join(d, "meta.json"), "w"), indent=1)
    print("stored", d)


def detect(seedid, prop, tier="quick"):
    """apply the patch (to /repo itself when SEED_INPLACE=1 and /repo is clean, else to a scratch worktree of /repo's HEAD
    that the check is pointed at with VERIF_REPO), run the check, undo"""
    d = os.path.join("/verif/seeded", seedid)
    patch = os.path.join(d, "patch.diff")
    if os.environ.get("SEED_INPLACE") == "1":
        rc, out = sh("git -C /repo status --porcelain")
        if out.strip():
            print("refusing: /repo is not clean"); return 2
        rc, out = sh("git -C /repo apply %s" % patch)
        if rc != 0:
            print("patch does not apply to /repo:", out); return 2
        try:
            rc, out = sh("./check %s %s -no-evidence" % (prop, tier), cwd="/verif", timeout=7200)
        finally:
            sh("git -C /repo checkout -- . && git -C /repo clean -fdq")
    else:
        wt = "/tmp/det-%s-%d" % (seedid, os.getpid())
        sh("git -C /repo worktree remove --force %s" % wt)
        rc, out = sh("git -C /repo worktree add -q --detach %s HEAD" % wt)
        if rc != 0:
            print("cannot create worktree:", out); return 2
        try:
            rc, out = sh("git apply %s" % patch, cwd=wt)
            if rc != 0:
                print("patch does not apply to /repo's HEAD:", out); return 2
            rc, out = sh("VERIF_REPO=%s ./check %s %s -no-evidence" % (wt, prop, tier), cwd="/verif", timeout=7200)
        finally:
            sh("git -C /repo worktree remove --force %s" % wt)
    lines = [l for l in out.splitlines() if l.startswith("VIOLATION")]
    verdict = "DETECTED" if rc == 1 and lines else ("MISSED" if rc == 0 else "ERROR rc=%d" % rc)
    print("%s %s %s: %s" % (seedid, prop, tier, verdict))
    for l in out.splitlines():
        if l.startswith("  ") or l.startswith("INTERNAL") or "UNTRANSLATABLE" in l:
            print("   ", l[:300])
            break
    if verdict.startswith("ERROR"):
        print(out[-1500:])
    mp = os.path.join(d, "meta.json")
    meta = json.load(open(mp))
    meta.setdefault("detected_by", {})["%s %s" % (prop, tier)] = verdict + ((": " + next((l.strip() for l in out.splitlines() if l.startswith("  ") and "case" not in l), ""))[:300] if verdict == "DETECTED" else "")
    json.dump(meta, open(mp, "w"), indent=1)
    return 0

if __name__ == "__main__":
    a = sys.argv[1:]
    if a[0] == "verify":
        sys.exit(0 if verify(*a[1:8]) else 1)
    if a[0] == "store":
        store(a[1], a[2], a[3], a[4], a[5], a[6], a[7], a[8], " ".join(a[9:]))
    if a[0] == "storedir":
        storedir(a[1], a[2], a[3], a[4], a[5], a[6], " ".join(a[7:]))
    if a[0] == "detect":
        sys.exit(detect(*a[1:]))
