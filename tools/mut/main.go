// mut enumerates first-order syntactic mutants of one Go source file.
//
//	mut -file path.go -list              print the number of mutants and one line per mutant
//	mut -file path.go -n K -out out.go   write mutant number K
//
// It is a tool for judging the checks, not part of any check: every mutant that
// compiles and that the repository's own tests accept is run against the checks of
// the properties anchored in that file; the survivors are read by hand
// (equivalent, outside every property, or a gap in a check).
package main

import (
	"bytes"
	"flag"
	"fmt"
	"go/ast"
	"go/format"
	"go/parser"
	"go/token"
	"os"
	"strconv"
)

type mutant struct {
	pos   token.Pos
	desc  string
	apply func() (undo func())
}

var swap = map[token.Token][]token.Token{
	token.ADD: {token.SUB}, token.SUB: {token.ADD}, token.MUL: {token.QUO},
	token.LSS: {token.LEQ, token.GTR}, token.LEQ: {token.LSS}, token.GTR: {token.GEQ, token.LSS}, token.GEQ: {token.GTR},
	token.EQL: {token.NEQ}, token.NEQ: {token.EQL}, token.LAND: {token.LOR}, token.LOR: {token.LAND},
	token.ADD_ASSIGN: {token.SUB_ASSIGN}, token.SUB_ASSIGN: {token.ADD_ASSIGN},
}

func main() {
	file := flag.String("file", "", "source file")
	list := flag.Bool("list", false, "list mutants")
	n := flag.Int("n", -1, "mutant number")
	out := flag.String("out", "", "output file")
	flag.Parse()
	fset := token.NewFileSet()
	f, err := parser.ParseFile(fset, *file, nil, parser.ParseComments)
	if err != nil {
		fmt.Fprintln(os.Stderr, err)
		os.Exit(2)
	}
	var ms []mutant
	add := func(pos token.Pos, desc string, apply func() func()) {
		ms = append(ms, mutant{pos, desc, apply})
	}
	// statement lists: removal of single statements, removal of select arms
	stmtList := func(list *[]ast.Stmt) {
		for i := range *list {
			i := i
			st := (*list)[i]
			removable := false
			what := ""
			switch v := st.(type) {
			case *ast.ExprStmt:
				removable, what = true, "call"
			case *ast.IncDecStmt:
				removable, what = true, "inc/dec"
			case *ast.DeferStmt:
				removable, what = true, "defer"
			case *ast.SendStmt:
				removable, what = true, "send"
			case *ast.GoStmt:
				removable, what = true, "go"
			case *ast.AssignStmt:
				if v.Tok != token.DEFINE {
					removable, what = true, "assignment"
				}
			case *ast.BranchStmt:
				if v.Label == nil && (v.Tok == token.CONTINUE || v.Tok == token.BREAK) {
					removable, what = true, v.Tok.String()
				}
			case *ast.ReturnStmt:
				if len(v.Results) == 0 {
					removable, what = true, "bare return"
				}
			}
			if removable {
				add(st.Pos(), "remove "+what+" statement", func() func() {
					old := (*list)[i]
					(*list)[i] = &ast.EmptyStmt{Semicolon: old.Pos(), Implicit: false}
					return func() { (*list)[i] = old }
				})
			}
		}
	}
	ast.Inspect(f, func(nd ast.Node) bool {
		switch v := nd.(type) {
		case *ast.BlockStmt:
			stmtList(&v.List)
		case *ast.CaseClause:
			stmtList(&v.Body)
		case *ast.CommClause:
			stmtList(&v.Body)
		case *ast.SelectStmt:
			if len(v.Body.List) >= 2 {
				for i := range v.Body.List {
					i := i
					add(v.Body.List[i].Pos(), "remove select arm", func() func() {
						old := v.Body.List
						nl := append(append([]ast.Stmt{}, old[:i]...), old[i+1:]...)
						v.Body.List = nl
						return func() { v.Body.List = old }
					})
				}
			}
		case *ast.BinaryExpr:
			for _, t := range swap[v.Op] {
				t := t
				add(v.OpPos, fmt.Sprintf("%s -> %s", v.Op, t), func() func() {
					old := v.Op
					v.Op = t
					return func() { v.Op = old }
				})
			}
		case *ast.AssignStmt:
			for _, t := range swap[v.Tok] {
				t := t
				add(v.TokPos, fmt.Sprintf("%s -> %s", v.Tok, t), func() func() {
					old := v.Tok
					v.Tok = t
					return func() { v.Tok = old }
				})
			}
		case *ast.IncDecStmt:
			add(v.TokPos, "++ <-> --", func() func() {
				old := v.Tok
				if old == token.INC {
					v.Tok = token.DEC
				} else {
					v.Tok = token.INC
				}
				return func() { v.Tok = old }
			})
		case *ast.BranchStmt:
			if v.Label == nil && (v.Tok == token.CONTINUE || v.Tok == token.BREAK) {
				add(v.Pos(), "continue <-> break", func() func() {
					old := v.Tok
					if old == token.CONTINUE {
						v.Tok = token.BREAK
					} else {
						v.Tok = token.CONTINUE
					}
					return func() { v.Tok = old }
				})
			}
		case *ast.BasicLit:
			if v.Kind == token.INT {
				if k, err := strconv.Atoi(v.Value); err == nil {
					for _, nv := range []int{k + 1, k - 1} {
						if nv < 0 {
							continue
						}
						nv := nv
						add(v.Pos(), fmt.Sprintf("%d -> %d", k, nv), func() func() {
							old := v.Value
							v.Value = strconv.Itoa(nv)
							return func() { v.Value = old }
						})
					}
				}
			}
		case *ast.Ident:
			if v.Name == "true" || v.Name == "false" {
				add(v.Pos(), v.Name+" flipped", func() func() {
					old := v.Name
					if old == "true" {
						v.Name = "false"
					} else {
						v.Name = "true"
					}
					return func() { v.Name = old }
				})
			}
		case *ast.IfStmt:
			add(v.Cond.Pos(), "negate if condition", func() func() {
				old := v.Cond
				v.Cond = &ast.UnaryExpr{Op: token.NOT, X: &ast.ParenExpr{X: old}}
				return func() { v.Cond = old }
			})
		case *ast.ForStmt:
			if v.Cond != nil {
				add(v.Cond.Pos(), "negate loop condition", func() func() {
					old := v.Cond
					v.Cond = &ast.UnaryExpr{Op: token.NOT, X: &ast.ParenExpr{X: old}}
					return func() { v.Cond = old }
				})
			}
		case *ast.CallExpr:
			// swap the first two arguments when there are exactly two or three (often same-typed)
			if len(v.Args) >= 2 && len(v.Args) <= 3 {
				add(v.Lparen, "swap first two call arguments", func() func() {
					v.Args[0], v.Args[1] = v.Args[1], v.Args[0]
					return func() { v.Args[0], v.Args[1] = v.Args[1], v.Args[0] }
				})
			}
		case *ast.IndexExpr:
			add(v.Lbrack, "index + 1", func() func() {
				old := v.Index
				v.Index = &ast.BinaryExpr{X: &ast.ParenExpr{X: old}, Op: token.ADD, Y: &ast.BasicLit{Kind: token.INT, Value: "1"}}
				return func() { v.Index = old }
			})
		}
		return true
	})
	if *list {
		fmt.Println(len(ms))
		for i, m := range ms {
			p := fset.Position(m.pos)
			fmt.Printf("%d\t%d:%d\t%s\n", i, p.Line, p.Column, m.desc)
		}
		return
	}
	if *n < 0 || *n >= len(ms) {
		fmt.Fprintln(os.Stderr, "mutant number out of range")
		os.Exit(2)
	}
	ms[*n].apply()
	var buf bytes.Buffer
	if err := format.Node(&buf, fset, f); err != nil {
		fmt.Fprintln(os.Stderr, err)
		os.Exit(2)
	}
	if err := os.WriteFile(*out, buf.Bytes(), 0o644); err != nil {
		fmt.Fprintln(os.Stderr, err)
		os.Exit(2)
	}
	p := fset.Position(ms[*n].pos)
	fmt.Printf("%d:%d %s\n", p.Line, p.Column, ms[*n].desc)
}
