#!/usr/bin/env python3
"""ref_sweep.py <root dir> [group ...]: runs the quick checks against every behaviour-preserving change
<root>/<group>/rN.diff (the kept set is /verif/controls; scratch worktree, VERIF_REPO); a VIOLATION there is a false alarm (or a change that is
not behaviour-preserving after all) and exit 2 a construct the machinery cannot handle. Prints one line per run."""
import glob, os, subprocess, sys
MAP = {"optics": ["C01", "C02", "C03", "C04"], "pipeseq": ["C05", "C06", "C07", "C11", "C12", "C13"], "unbound": ["C08"],
       "fork": ["C09", "C10"], "iter": ["C14", "C15"], "duct": ["C16"], "pure": ["C17", "C10"], "skiplist": ["C18"],
       "seqadt": ["C19"], "pipen": ["C20"], "pipetime": ["C06", "C11", "C13"]}
root = sys.argv[1]
for _g in ("pipeseq", "pipetime", "unbound", "fork", "optics", "iter", "skiplist"):
    MAP["round2-" + _g] = MAP[_g]
groups = sys.argv[2:] or list(MAP)
def sh(c, **k):
    p = subprocess.run(c, shell=True, stdout=subprocess.PIPE, stderr=subprocess.STDOUT, text=True, **k)
    return p.returncode, p.stdout
for g in groups:
    for d in sorted(glob.glob(os.path.join(root, g, "r*.diff")) or glob.glob(os.path.join(root, "out", g, "r*.diff"))):
        wt = "/tmp/refwt-%d" % os.getpid()
        sh("git -C /repo worktree remove --force %s" % wt)
        rc, o = sh("git -C /repo worktree add -q --detach %s HEAD" % wt)
        rc, o = sh("git apply %s" % d, cwd=wt)
        if rc != 0:
            print(g, os.path.basename(d), "PATCH DOES NOT APPLY", o[:200], flush=True)
            sh("git -C /repo worktree remove --force %s" % wt)
            continue
        for prop in MAP[g]:
            rc, o = sh("./check %s quick -no-evidence" % prop, cwd="/verif", env=dict(os.environ, VERIF_REPO=wt), timeout=7200)
            v = {0: "silent", 1: "ALARM", 2: "UNDECIDED"}.get(rc, "rc=%d" % rc)
            detail = ""
            if rc != 0:
                detail = " | ".join(l.strip() for l in o.splitlines() if l.startswith("  ") or "INTERNAL" in l or "UNTRANSLATABLE" in l)[:600]
            print(g, os.path.basename(d), prop, v, detail, flush=True)
        sh("git -C /repo worktree remove --force %s" % wt)
