#!/usr/bin/env python3
"""seed_staged.py <round dir> <ID> <m1|m2> <pkgdir under stage e.g. maplike/skiplist|seq/list|seq/slice|ipipe> <TestName> [suffix]
For the internal/* properties (no go.mod): writes demo/run.sh that stages <worktree>/internal/* into a scratch module,
verifies (clean: demo passes; patched: staged suites pass, demo fails), stores under /verif/seeded and runs detection."""
import glob, os, shutil, subprocess, sys, tempfile
root, pid, m, pkgdir, test = sys.argv[1:6]
suffix = sys.argv[6] if len(sys.argv) > 6 else "r7"
wt = os.path.join(root, pid)
out = os.path.join(root, "out", pid)
tests = glob.glob(os.path.join(out, m + "_demo", "*_test.go"))
assert len(tests) == 1, tests
demo = tempfile.mkdtemp(prefix="sdemo")
shutil.copy(tests[0], demo)
RUN = r'''#!/bin/sh
# usage: run.sh <worktree> [suite]
# Stages <worktree>/internal/{maplike,seq,pipe} into a scratch module named github.com/fogfish/golem, adds the demo
# test to %(pkgdir)s and runs it (exit 0 = demo passes). With "suite" as second argument the staged packages' own tests run instead.
set -e
WT="${1:?usage: run.sh <worktree>}"
HERE="$(cd "$(dirname "$0")" && pwd)"
TMP="$(mktemp -d)"
trap 'rm -rf "$TMP"' EXIT
cp -r "$WT/internal/maplike" "$TMP/maplike"
cp -r "$WT/internal/seq" "$TMP/seq"
cp -r "$WT/internal/pipe" "$TMP/ipipe"
sed -i 's#"github.com/fogfish/golem/pure"#pure "github.com/fogfish/golem/ipipe"#' "$TMP/ipipe/pipe_test.go"
cat > "$TMP/go.mod" <<MOD
module github.com/fogfish/golem

go 1.22

require github.com/fogfish/golem/pure v0.10.1

require github.com/fogfish/it v1.0.0

replace github.com/fogfish/golem/pure => $WT/pure
MOD
cat "$WT/pure/go.sum" "$WT/pipe/go.sum" > "$TMP/go.sum" 2>/dev/null || true
cd "$TMP"
if [ "$2" = suite ]; then
  go test -mod=mod -vet=off -count=1 ./...
else
  cp "$HERE"/*_test.go "$TMP/%(pkgdir)s/"
  go test -mod=mod -vet=off -count=1 -run '%(test)s' ./%(pkgdir)s/
fi
''' % {"pkgdir": pkgdir, "test": test}
open(os.path.join(demo, "run.sh"), "w").write(RUN)
def sh(c, cwd=None):
    p = subprocess.run(c, shell=True, cwd=cwd, stdout=subprocess.PIPE, stderr=subprocess.STDOUT, text=True)
    return p.returncode, p.stdout
sh("git checkout -- . && git clean -fdq", cwd=wt)
rc0, o0 = sh("sh %s/run.sh %s" % (demo, wt))
rc, o = sh("git apply %s" % os.path.join(out, m + ".diff"), cwd=wt)
assert rc == 0, o
rcs, os_ = sh("sh %s/run.sh %s suite" % (demo, wt))
rc1, o1 = sh("sh %s/run.sh %s" % (demo, wt))
sh("git checkout -- . && git clean -fdq", cwd=wt)
print("clean demo rc=%d; patched suite rc=%d; patched demo rc=%d" % (rc0, rcs, rc1))
if not (rc0 == 0 and rcs == 0 and rc1 != 0):
    print("NOT VERIFIED"); print(o0[-600:]); print(os_[-800:]); print(o1[-600:]); sys.exit(1)
sid = "%s-%s%s" % (pid, suffix, m)
notes = open(os.path.join(out, m + ".txt")).read().strip().replace("\n", " ")
confirmed = "clean tree: demo passes (rc 0); patch applied: demo fails (rc %d); with the patch the own tests of internal/maplike, internal/seq and internal/pipe pass when staged into a scratch module (sh demo/run.sh <worktree> suite)" % rc1
subprocess.run(["/verif/tools/seed.py", "storedir", sid, pid, os.path.join(out, m + ".diff"), demo, "sh demo/run.sh <repo checkout>", confirmed, notes[:600]], stdout=subprocess.DEVNULL)
shutil.rmtree(demo)
d = subprocess.run(["/verif/tools/seed.py", "detect", sid, pid], stdout=subprocess.PIPE, stderr=subprocess.STDOUT, text=True)
print(" | ".join(l.strip() for l in d.stdout.strip().splitlines()[:2])[:300])
