#!/usr/bin/env python3
"""Runs every seeded change against the quick check of the property it breaks (scratch worktrees, VERIF_REPO)
and prints a table; exit 1 if any is missed. Usage: tools/seed_sweep.py [prefix ...]"""
import glob, json, os, subprocess, sys
sel = sys.argv[1:]
rows, bad = [], 0
for mp in sorted(glob.glob("/verif/seeded/*/meta.json")):
    m = json.load(open(mp))
    if sel and not any(m["id"].startswith(s) for s in sel):
        continue
    if m.get("expected") == "not-detected-by-design":
        print(m["id"], "skipped:", m.get("judgement", "")[:120], flush=True)
        continue
    p = subprocess.run(["/verif/tools/seed.py", "detect", m["id"], m.get("check_property", m["breaks_property"])], stdout=subprocess.PIPE, stderr=subprocess.STDOUT, text=True)
    first = p.stdout.strip().splitlines()[0] if p.stdout.strip() else "no output"
    print(first, flush=True)
    if "DETECTED" not in first:
        bad += 1
        print(p.stdout[-1500:])
print("missed or errored:", bad)
sys.exit(1 if bad else 0)
