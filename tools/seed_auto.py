#!/usr/bin/env python3
"""seed_auto.py <round dir e.g. /tmp/seed2> <ID> [suffix]: for m1 and m2 of a seeding agent's output parse RUN.txt,
verify in the agent's worktree, store as <ID>-<suffix>m1/2 and run detection. Prints one line per change."""
import os, re, subprocess, sys, glob
root, pid = sys.argv[1], sys.argv[2]
suffix = sys.argv[3] if len(sys.argv) > 3 else "r2"
S = "/verif/tools/seed.py"
for m in ("m1", "m2"):
    out = os.path.join(root, "out", pid)
    demo = os.path.join(out, m + "_demo")
    tests = glob.glob(os.path.join(demo, "*_test.go"))
    run = open(os.path.join(demo, "RUN.txt")).read()
    if len(tests) != 1 or os.path.exists(os.path.join(demo, "run.sh")) or os.path.exists(os.path.join(demo, "go.mod")):
        print("%s %s: MANUAL (demo is not a single test file)" % (pid, m)); continue
    mdest = re.search(r"(?:/tmp/\w+/%s/|<worktree>/)([a-z/]+?)/?(?:\s|$|&)" % pid, run)
    mrun = re.search(r"-run\s+'?([A-Za-z0-9_|^$]+)'?", run)
    mpkg = re.search(r"-run\s+'?[A-Za-z0-9_|^$]+'?(?:\s+-v)?\s+(\S+)", run)
    if not (mdest and mrun and mpkg):
        print("%s %s: MANUAL (cannot parse RUN.txt)" % (pid, m)); continue
    dest, pat, pkg = mdest.group(1), mrun.group(1), mpkg.group(1)
    module = dest.split("/")[0]
    wt = os.path.join(root, pid)
    p = subprocess.run([S, "verify", wt, os.path.join(out, m + ".diff"), tests[0], dest, module, pat, pkg], stdout=subprocess.PIPE, stderr=subprocess.STDOUT, text=True)
    ok = p.stdout.strip().endswith("VERIFIED") and "NOT VERIFIED" not in p.stdout
    if not ok:
        print("%s %s: NOT VERIFIED\n%s" % (pid, m, p.stdout[-800:])); continue
    sid = "%s-%s%s" % (pid, suffix, m)
    notes = open(os.path.join(out, m + ".txt")).read().strip().replace("\n", " ")
    subprocess.run([S, "store", sid, pid, os.path.join(out, m + ".diff"), tests[0], dest, module, pat, pkg, notes[:600]], stdout=subprocess.DEVNULL)
    d = subprocess.run([S, "detect", sid, pid], stdout=subprocess.PIPE, stderr=subprocess.STDOUT, text=True)
    print(" | ".join(l.strip() for l in d.stdout.strip().splitlines()[:2])[:300], flush=True)
