#!/bin/sh
# runs every quick check against /repo, writes the evidence files, prints one line per check with its exit status
cd /verif
for i in C01 C02 C03 C04 C05 C06 C07 C08 C09 C10 C11 C12 C13 C14 C15 C16 C17 C18 C19 C20; do
  s=$(date +%s)
  ./check $i ${1:-quick} > /tmp/runall_$i.log 2>&1
  rc=$?
  echo "$i rc=$rc $(( $(date +%s) - s ))s $(grep -c '^VIOLATION' /tmp/runall_$i.log) violation lines"
done
