#!/usr/bin/env python3
"""Mutation sweep: judges the checks, is not part of any check.

  mutsweep.py filter <file> [stride]   phase 1: every (stride-th) mutant of /repo/<file> that compiles and passes the
                                       repository's own tests of its module -> /verif/.work/mut/<file>.survivors.json
  mutsweep.py run <file>               phase 2: each survivor against the quick checks of the properties anchored in
                                       the file, first detection wins -> /verif/.work/mut/<file>.result.json
  mutsweep.py report                   table of all results

Worktrees live under /tmp/mutwt and are removed at the end of each phase.
"""
import json, os, shutil, subprocess, sys, concurrent.futures as cf

VERIF = "/verif"
MUT = os.path.join(VERIF, "bin", "mut")
OUT = os.path.join(VERIF, ".work", "mut")
GOENV = dict(os.environ, GOFLAGS="-mod=mod", GOPROXY="off")

CHECKS = {
    "hseq/hseq.go": ["C03", "C01", "C02"],
    "optics/lens.go": ["C01", "C02", "C04"],
    "optics/reflector.go": ["C01", "C02"],
    "optics/iso.go": ["C04"],
    "optics/shape.go": ["C04"],
    "pipe/pipe.go": ["C05", "C06", "C07", "C12", "C11", "C13"],
    "pipe/function.go": ["C07", "C06", "C11"],
    "pipe/unbound.go": ["C08"],
    "pipe/queue.go": ["C08"],
    "pipe/fork/fork.go": ["C09", "C10"],
    "pipe/fork/function.go": ["C09"],
    "trait/seq/seq.go": ["C14", "C15"],
    "trait/pair/pair.go": ["C15"],
    "duct/ast.go": ["C16"],
    "duct/duct.go": ["C16"],
    "pure/eq/eq.go": ["C17"],
    "pure/ord/ord.go": ["C17", "C18"],
    "pure/monoid/monoid.go": ["C17"],
    "pure/semigroup/semigroup.go": ["C17"],
    "internal/maplike/skiplist/skiplist.go": ["C18"],
    "internal/maplike/skiplist/skipnode.go": ["C18"],
    "internal/seq/list/list.go": ["C19"],
    "internal/seq/slice/slice.go": ["C19"],
    "internal/seq/foldable.go": ["C19"],
}


def sh(cmd, cwd=None, timeout=600, env=None):
    try:
        p = subprocess.run(cmd, cwd=cwd, shell=True, stdout=subprocess.PIPE, stderr=subprocess.STDOUT, text=True, timeout=timeout, env=env or GOENV)
        return p.returncode, p.stdout
    except subprocess.TimeoutExpired:
        return 124, "timeout"


def worktree(tag):
    wt = "/tmp/mutwt/%s" % tag
    sh("git -C /repo worktree remove --force %s" % wt)
    os.makedirs("/tmp/mutwt", exist_ok=True)
    rc, out = sh("git -C /repo worktree add -q --detach %s HEAD" % wt)
    assert rc == 0, out
    return wt


def drop(wt):
    sh("git -C /repo worktree remove --force %s" % wt)


def repo_tests(wt, file):
    """the repository's own tests for the module of the file (internal/*: staged into a scratch module)"""
    top = file.split("/")[0]
    if top == "internal":
        d = wt + ".stage"
        shutil.rmtree(d, ignore_errors=True)
        os.makedirs(d)
        shutil.copytree(os.path.join(wt, "internal", "maplike"), os.path.join(d, "maplike"))
        shutil.copytree(os.path.join(wt, "internal", "seq"), os.path.join(d, "seq"))
        open(os.path.join(d, "go.mod"), "w").write("module github.com/fogfish/golem\n\ngo 1.22\n\nrequire github.com/fogfish/golem/pure v0.10.1\n\nreplace github.com/fogfish/golem/pure => %s/pure\n" % wt)
        if os.path.exists(os.path.join(wt, "pure", "go.sum")):
            shutil.copy(os.path.join(wt, "pure", "go.sum"), os.path.join(d, "go.sum"))
        rc, out = sh("go test -vet=off -count=1 ./...", cwd=d, timeout=300, env=dict(GOENV, GOSUMDB="off"))
        shutil.rmtree(d, ignore_errors=True)
        return rc, out
    rc, out = sh("go build ./... && go test -vet=off -count=1 -timeout 120s ./...", cwd=os.path.join(wt, top), timeout=400)
    if rc != 0 and top == "pipe" and "--- FAIL" in out:
        # two timing-flaky tests of the pipe module fail now and then on the unchanged tree as well
        fails = [l for l in out.splitlines() if l.startswith("--- FAIL")]
        if all("TestThrottling" in l or "TestFMap" in l for l in fails):
            rc2, out2 = sh("go test -vet=off -count=1 -timeout 120s ./...", cwd=os.path.join(wt, top), timeout=400)
            return rc2, out2
    return rc, out


def filt_one(args):
    file, idx, slot = args
    wt = "/tmp/mutwt/f%d-%d" % (os.getpid(), slot)
    sh("git checkout -q -- . && git clean -fdq", cwd=wt)
    rc, desc = sh("%s -file /repo/%s -n %d -out %s/%s" % (MUT, file, idx, wt, file))
    if rc != 0:
        return idx, "gen-error", desc.strip()
    rc, out = repo_tests(wt, file)
    sh("git checkout -q -- . && git clean -fdq", cwd=wt)
    if rc == 0:
        return idx, "survives-repo-tests", desc.strip()
    kind = "killed-by-repo-tests"
    if "--- FAIL" not in out and "panic:" not in out and rc != 124:
        kind = "does-not-compile"
    if rc == 124 or "test timed out" in out:
        kind = "killed-by-repo-tests(timeout)"
    return idx, kind, desc.strip()


def phase1(file, stride):
    os.makedirs(OUT, exist_ok=True)
    n = int(subprocess.run([MUT, "-file", "/repo/" + file, "-list"], stdout=subprocess.PIPE, text=True).stdout.splitlines()[0])
    idxs = list(range(0, n, stride))
    workers = 8
    for s in range(workers):
        worktree("f%d-%d" % (os.getpid(), s))
    res = {}
    try:
        # a slot per worker: tasks are dealt round-robin and each worker processes its own list sequentially
        lists = [[(file, i, s) for i in idxs[s::workers]] for s in range(workers)]
        def runlist(l):
            return [filt_one(a) for a in l]
        with cf.ThreadPoolExecutor(workers) as ex:
            for part in ex.map(runlist, lists):
                for idx, kind, desc in part:
                    res[idx] = {"kind": kind, "desc": desc}
    finally:
        for s in range(workers):
            drop("/tmp/mutwt/f%d-%d" % (os.getpid(), s))
    path = os.path.join(OUT, file.replace("/", "_") + ".survivors.json")
    json.dump({"file": file, "mutants": n, "stride": stride, "results": res}, open(path, "w"), indent=1)
    kinds = {}
    for r in res.values():
        kinds[r["kind"]] = kinds.get(r["kind"], 0) + 1
    print(file, "mutants", n, "tried", len(idxs), kinds)


def phase2(file):
    path = os.path.join(OUT, file.replace("/", "_") + ".survivors.json")
    d = json.load(open(path))
    wt = worktree("run-%d" % os.getpid())
    out = {}
    try:
        for idx, r in sorted(d["results"].items(), key=lambda kv: int(kv[0])):
            if r["kind"] != "survives-repo-tests":
                continue
            sh("git checkout -q -- . && git clean -fdq", cwd=wt)
            sh("%s -file /repo/%s -n %s -out %s/%s" % (MUT, file, idx, wt, file))
            verdict, by = "MISSED", ""
            stages = [(prop, {}) for prop in CHECKS[file]]
            if file.startswith(("hseq/", "optics/")):
                # a reduced shape set first (compiles in seconds), the full quick tier only for what survives it
                stages = [(prop, {"VERIF_SHAPES": "mini"}) for prop in CHECKS[file]] + stages
            for prop, extra in stages:
                rc, o = sh("./check %s quick -no-evidence" % prop, cwd=VERIF, timeout=3600, env=dict(os.environ, VERIF_REPO=wt, **extra))
                if rc == 1 and "VIOLATION" in o:
                    verdict, by = "DETECTED", prop
                    break
                if rc == 2:
                    verdict, by = "UNDECIDED", prop + ": " + " ".join(l for l in o.splitlines() if "INTERNAL" in l or "UNTRANSLATABLE" in l)[:200]
            out[idx] = {"desc": r["desc"], "verdict": verdict, "by": by}
            print(file, idx, r["desc"], verdict, by, flush=True)
            json.dump({"file": file, "results": out}, open(os.path.join(OUT, file.replace("/", "_") + ".result.json"), "w"), indent=1)
    finally:
        drop(wt)


def report():
    import glob
    for p in sorted(glob.glob(os.path.join(OUT, "*.result.json"))):
        d = json.load(open(p))
        v = {}
        for r in d["results"].values():
            v[r["verdict"]] = v.get(r["verdict"], 0) + 1
        print(d["file"], v)
        for idx, r in sorted(d["results"].items(), key=lambda kv: int(kv[0])):
            if r["verdict"] != "DETECTED":
                print("   ", idx, r["desc"], r["verdict"], r["by"])


if __name__ == "__main__":
    a = sys.argv[1:]
    if a[0] == "filter":
        phase1(a[1], int(a[2]) if len(a) > 2 else 1)
    elif a[0] == "run":
        phase2(a[1])
    else:
        report()
