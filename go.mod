module verif

go 1.24
