#!/usr/bin/env python3
"""Generates MANIFEST.json from the table below (one entry per claimed property)."""
import json

E1 = "E1 gosim+rt+explore"
E2 = "E2 bounded-exhaustive drivers"
T_E1 = "stateless model checking of the translated implementation (controlled scheduler, exhaustive DFS over schedules with state caching, preemption / deviation bounds for the large configurations, virtual clock); model bound to the implementation by a runtime litmus suite and by outcome conformance of free-running executions of the untranslated code"
NOTE_E1 = "Trusted: gosim translation rules (audited by construct counts), rt channel/select/WaitGroup semantics under sequential consistency (litmus-tested against the real runtime), harness bodies in /verif/harness. "

CHECKS = {
 "C01": dict(engine=E2, category="exploration", technique="bounded-exhaustive generation of struct shapes (static Go types generated at check time), differential byte-level comparison with the compiler's field selector", ref="DESIGN.md 4, 5/C01",
  text="Every flat struct of 1..3 (4) fields over 8 size/alignment classes (584 / 4680 shapes), all value-embedding templates to depth 2 (depth 3: uniform / all), embedded non-struct types, duplicate and case-variant names, function-local types: for every focusable field the Lens and the Reflector derived by type and by name, and positionally through ForProductN/ForSpectrumN, are compared with the plain assignment on a twin struct, byte for byte including 256-byte guards around the struct and sentinel-filled padding, for all 9 ordered value pairs (incl. +0/-0 and an uncomparable value inside any); Get == selector; returned pointer; GetPut/PutGet/PutPut; plus a struct whose fields have unnamed types (chan, <-chan, pointer, unnamed interface, any, slice, array, map, func, anonymous struct, generic instantiations).",
  note="Ground truth is the compiler (selectors, plain assignment, pointer differences) - reflect is not used for offsets. amd64 only; layouts beyond the bounds are not covered."),
 "C02": dict(engine=E2, category="exploration", technique="bounded-exhaustive generation of struct shapes (static Go types generated at check time), differential byte-level comparison with the compiler's field selector; exhaustive request tables per shape", ref="DESIGN.md 4, 5/C02",
  text="For every shape (incl. pointer-embedded structs at each level): every (name, requested type) request with all other field types, a distinct named type of the same underlying type, the bare underlying type, foreign types and same-printed-name local types must panic; absent types, unknown/empty names, too few names (also as a sub-slice with spare capacity), containers *S/**S/[]S/[1]S/map/int must panic; Reflector Gett/Putt with S by value, *Other, *Twin (identical underlying struct), **S, nil, typed nil, uintptr, unsafe.Pointer must panic and leave memory byte-identical; a focus behind an embedded pointer is either refused or must really go through the pointer; on the unnamed-type struct 32 requests whose type is only assignable from the field's type (chan int -> <-chan int, *Impl -> interface, anything -> any, []int32 -> named slice, ...) must panic.",
  note="Same ground truth as C01."),
 "C03": dict(engine=E2, category="exploration", technique="bounded-exhaustive generation of struct shapes; expected unfolding computed from the generator's own description", ref="DESIGN.md 4, 5/C03",
  text="hseq.New[T]() equals the generator's depth-first listing (names, tag keys, declared types, PureType, Anonymous, consecutive IDs) for every shape incl. pointer embedding and duplicate / case-variant names; RootOffs+Offset equals the real offset (pointer difference through selectors) for entries not behind a pointer; ForName/ForNameMaybe (first match, exact, absent keys), ForType/New1 (first match, absent and same-printed-name types panic), New[T](names...) for all permutations of <=3 keys, NewN with N distinct types in both orders, FMap and FMap1..9 positional; ForType on unnamed field types (identity, not assignability) incl. 12 absent types some field is assignable to.",
  note="Recursive embedded-pointer types are outside the alphabet (unfold does not terminate on them; the listing is undefined)."),
 "C04": dict(engine=E2, category="exploration", technique="bounded-exhaustive generation of nested struct shapes and iso lists; differential byte-level comparison with plain assignments", ref="DESIGN.md 4, 5/C04",
  text="Join at nesting 1..3 over generated nested structs (padding variations, focus plain or promoted from a value-embedded struct, by name and by type, both associations) under the C01 byte oracle; ForShape2/3 on every generated shape and ForShape2..9 on a homogeneous 9-field struct for all N-permutations of names (N<=4; 7 thorough) against component-wise assignment; BiMap/BiMapS/B/I/F laws on converted values, Getter never writes, Setter writes the converted value; map lens over all maps with keys in {a,b,c}; Morphism over all lists of length <=4 (5) over {nil, three isos, two nested morphisms}: Forward copies exactly the covered foci, Forward;Inverse restores them, nothing else changes in either structure, the caller's slice is untouched; every base morphism over 1..4 of 6 isos used as an entry of five further morphisms, all built first and evaluated afterwards (aliasing between constructions); BiMap with conversions that do not fix zero and over the whole int64 range; Join used re-entrantly and over BiMap optics.",
  note="Padding bytes inside the struct are not compared (Join copies a whole sub-struct and may rewrite them); guards around the struct are."),
 "C05": dict(engine=E1, category="model_checking", technique=T_E1, ref="DESIGN.md 3, 5/C05",
  text="Every interleaving (unbounded, state-cached) of producer, stage goroutine and one draining consumer per output, for every sequential stage, input 1..k (k<=3; 4 thorough), capacities 0..2, all 2^k predicate patterns and all Take n in 0..k+1: outputs equal the list function, each output and error channel closes, ForEach visits each element once in order, Take lets the producer complete at most n+cap sends, no deadlock and no goroutine left. Also: the stages at element type any with nil interface values, Seq over 17..300 arguments with the caller's slice overwritten after the call, and every stage over 9, 17, 33 elements explored up to 3 (4) deviations from the default schedule; consumers that are minutes late on the virtual clock; predicates that accept the zero value; Take(MaxInt); Fold over a non-neutral empty element; an execution still delivering at the step horizon is checked against the reference prefix.",
  note=NOTE_E1 + "Elements are the distinct ints 1..k (the stages are parametric in the element type; predicate answers are enumerated instead)."),
 "C06": dict(engine=E1, category="model_checking", technique=T_E1, ref="DESIGN.md 3, 5/C06",
  text="Every ordering of environment moves (send, close, receive on any output, cancel: all free threads) for all 14 stages, k<=2 (3), capacities 0..1, consumers draining / absent / leaving after m values, error channel read by the harness, by StdErr or by nobody: no library panic, deliveries are a prefix of the uncancelled result, inputs closed + outputs drained => all channels closed and goroutines gone (Throttling pacer excepted), cancel + inputs closed => all library goroutines gone and every returned channel closed (observed on the simulated channel objects, no receive needed); Try-mode generators whose error channel nobody reads; an execution in which one goroutine spins alone up to the horizon is reported as a livelock; Take over Seq of up to 2100 arguments; zero-interval Throttling; functions that fail for ever (liveness).",
  note=NOTE_E1 + "Fold under cancel is allowed to emit the fold of the consumed prefix (interpretation recorded in DESIGN.md). Generators are driven by consumers that leave or cancel, so that executions are finite."),
 "C07": dict(engine=E1, category="model_checking", technique=T_E1, ref="DESIGN.md 3, 5/C07",
  text="All 2^k failing subsets (k<=3; 4 thorough) x {Lift, Try} x {Map, FMap} x capacities 0..2 x error consumer {reader thread, StdErr}; Emit over all failing subsets of indices 0..3, Unfold (fail-fast) over all failing subsets of seeds 1..4; every interleaving of value consumer, error consumer and stage: exact values, exact errors, exact call sequence of the user function, both channels closed, nothing blocked; one F value shared by two stages (the second must be unaffected by the first one's failures); producers that go idle instead of closing the input (fail-fast must still close both channels at the first failure); faults that wrap context errors; 40-140 failing elements behind StdErr.",
  note=NOTE_E1 + "'random longer inputs' of the quantifier are not generated (sampling is outside the family); the stage loops are memoryless per element."),
 "C09": dict(engine=E1, category="model_checking", technique=T_E1, ref="DESIGN.md 3, 5/C09",
  text="fork.Map/FMap/Filter/Partition/ForEach/Void with par 1..3 (4), inputs up to par*k<=6 (quick) / 3x3, 2x4, 4x2 (thorough), input capacity {0,k}, all failure/predicate patterns, Pure/Try (and Lift for the closure clauses); the user function yields, so in-flight calls complete in every order; every interleaving (state-cached, sibling workers identified up to permutation): each element processed exactly once, output and error multisets equal the sequential stage's, nothing sent on a closed channel, and the C06 closure / cancel / no-leak clauses with consumers that leave, cancel, unread error channel; par x k in {5x3, 9x2, 17x3, 33x2, 2x9, 3x17, 4x33} up to 2 (3) deviations from the default schedule; failing visitors for ForEach; one F value shared by two stages. Data races on variables shared between goroutines are turned into explored interleavings by gosim (scheduling point before every statement touching a closure-captured or package-level variable that some goroutine body assigns).",
  note=NOTE_E1 + "Symmetry reduction assumes worker goroutines started by one go statement run identical code (true of fork.go; a change that makes workers differ only by a captured index would be merged). Races on heap objects reached through pointers are not modelled (sequentially consistent scheduler); GOMAXPROCS is irrelevant to a model that enumerates all interleavings."),
 "C10": dict(engine=E1, category="model_checking", technique=T_E1, ref="DESIGN.md 3, 5/C10",
  text="fork.Fold for par 1..3, every input sequence of length <=3 (4) over a 3-letter alphabet incl. empty and shorter than par, monoids sum (injective weights: the sum is the bag of elements), product, max, min, and, or, input capacity {0,len}; every interleaving = every distribution of elements over workers and arrival order at the collector: exactly one value equal to the sequential left fold, then closed, nothing left running; 5..65 workers over 0, 2, 7 elements up to 2 (3) deviations from the default schedule; 300 workers idle next to an independent 2-worker fold; with a free canceller over an unbuffered input (par 1..3 x k<=3): at most one value, and it is the fold of exactly the elements the stage took, everything closes.",
  note=NOTE_E1 + "Same symmetry assumption as C09."),
 "C11": dict(engine=E1, category="model_checking", technique=T_E1, ref="DESIGN.md 3, 5/C11",
  text="Emit (cap 0..2, frequency 1 and 3 ticks, Pure / Try with all 15 failing subsets of indices 0..3 / Lift) and Unfold (cap 0..2, three step functions) against every consumer gap script over {0,f,2f} up to 3 (4) receives, and against a canceller firing at every clock grid point, on rt's virtual clock with every same-instant interleaving explored: exact successive sequence, function called at most once per tick (call i not before i ticks, consecutive calls >= f apart), no value before its tick, a keep-up consumer receives index i exactly at tick i+1, after cancel both channels close and the generator exits (also when nobody reads the error channel).",
  note=NOTE_E1 + "Time is rt's virtual clock (advances only when no thread can run - the testing/synctest rule); real-time jitter is not modelled."),
 "C12": dict(engine=E1, category="model_checking", technique=T_E1, ref="DESIGN.md 3, 5/C12",
  text="Join over every combination of 0..3 inputs with 0..2 distinct elements each, capacities 0..1, one producer per input, canceller absent or free, every interleaving: received sequence is an interleaving of the inputs (per-input order, no loss, duplicate or invention), the output closes exactly when all producers have closed (the consumer reads a shared counter at the moment it observes the close), closes with zero inputs, no goroutine left; any-typed inputs with a nil interface element; wide fan-in of 5..24 inputs up to 2 (3) deviations from the default schedule; the same channel passed twice; producers that go idle instead of closing (2..20 inputs): everything sent is delivered; a consumer five minutes late on the virtual clock.",
  note=NOTE_E1 + "Quick tier: <=4 elements on <=2 inputs, <=3 on 3 inputs; thorough: all combinations up to 2+2+2 (preemption bound 4 at 6 elements)."),
 "C08": dict(engine=E1, category="model_checking", technique=T_E1, ref="DESIGN.md 3, 5/C08",
  text="Every interleaving (unbounded, state-cached) of the translated pipe.New pump with 1-2 senders, a receiver and a free canceller, for capacities 0..2 (3), 0..3 (4) sends, sender close, receiver drain/stop/absent and both sync.Pool recycling policies, is checked for FIFO, exactly-once, delivery of every completed send after cancel, clean end of stream on sender close, sender never waiting for the receiver, and no library panic; single-sender runs of 9, 17, 33 (65) sends up to 3 (4) deviations from the default schedule (a backlog beyond any small fixed buffer, at every head position); element type any with nil values.",
  note=NOTE_E1 + "Bounds: capacities and send counts as stated; values are distinct ints."),
 "C13": dict(engine=E1, category="model_checking", technique=T_E1, ref="DESIGN.md 3, 5/C13",
  text="Throttling for ops 1..3, interval 4 ticks, input capacity 0..2, k=2*ops+c+3 elements, producer gaps {0,I/2,I,3I}, consumer schedules (constant paces; take j then idle G in {I/2,I,I+1,2I,10I} then burst, for every j; two idle periods in thorough), cancel at grid points, on the virtual clock with every same-instant interleaving: exact order, closure, every window of length interval holds at most 2*ops+1+c deliveries before cancel (the maximum observed per (ops,c) is reported and reaches the bound exactly), saturated latency of element i within [floor(i/ops)*I, +I]; contexts with a deadline at five instants; the prefix-closed clauses also on executions cut at the step horizon.",
  note=NOTE_E1 + "Virtual clock as in C11; the latency upper bound is a statement about the ideal clock. Deliveries at the very instant of the cancel are not counted (they may follow it)."),
 "C14": dict(engine=E2, category="model_checking", technique="bounded-exhaustive enumeration of expression trees, each driven as a state machine on the real iterators against a list reference", ref="DESIGN.md 4, 5/C14",
  text="All 720k expression trees of depth <=3 over From/FromSlice/TakeWhile/DropWhile/Filter/Map/Plus/Join with 5 predicates, 3 mappings, 6 flat-map functions (incl. nil-returning and predicate-terminated inner sequences), thorough: depth 4 over a reduced alphabet; at every position Value/Next agree with the list-function image, nil iff empty, ForEach with an error (rotating over io.EOF, a wrapped io.EOF, context.Canceled, ...) at every visit position, source slices (with sentinel-filled spare capacity) unmodified.",
  note="Trusted: the reference list functions in e2/c14. Iterators are not shared between trees; Next is not called after it returned false. Random deeper trees are not sampled."),
 "C15": dict(engine=E2, category="model_checking", technique="bounded-exhaustive enumeration of two-sorted expression trees, each driven as a state machine on the real iterators against a list-of-pairs reference", ref="DESIGN.md 4, 5/C15",
  text="Every tree of depth <=3 and the depth-4 trees with any non-Plus root (Plus with one shallow operand) over pair.From/TakeWhile/DropWhile/Filter/Map/Plus/Join/ToSeq/FromSeq mixed with plain seq (9.6M trees; thorough 315M incl. depth 5), keys 100+i vs values i and argument-asymmetric functions: (Key,Value) at every position, Map keeps keys, ForEach stops at the first error; interface-typed values with nil among them.",
  note="Trusted: the reference in e2/c15. Same protocol assumptions as C14."),
 "C16": dict(engine=E2, category="model_checking", technique="explicit-state BFS over well-typed combinator programs executed on the real builder, reference-model comparison of visit traces, fault injection at every callback position", ref="DESIGN.md 4, 5/C16",
  text="All well-typed programs of From/Join/LiftF/WrapF/Unit/Yield up to 5 (6) steps over an 8-type universe (2.4M distinct trees in quick), each replayed on a fresh From: the visit trace equals the reference builder's (innermost-open-context rule, type names = duct.TypeOf of the step's parameters, depths, Root flags, child counts), enter/leave well-bracketed, and a visitor failing at any callback position gets its error back with no further callback.",
  note="Trusted: reference builder in e2/c16, statically generated instantiation table reg_gen.go."),
 "C17": dict(engine=E2, category="exploration", technique="exhaustive enumeration over boundary alphabets (all pairs and triples)", ref="DESIGN.md 5/C17",
  text="eq.Int/ord.Int over 9 boundary ints and eq.String/ord.String over 13 strings (all pairs, all triples): agreement with ==,<,>, equivalence and total-order laws, Ord EQ iff Eq; From wrappers and ContraMap with asymmetric base instances (argument order), monoid.From/FromOp/semigroup.From with non-commutative operations; comparator results outside {LT,EQ,GT} handed on as they are; strings sharing storage with their own prefixes.",
  note="Values outside the alphabets are not covered (explicit limit of the statement's quantifier for a bounded check)."),
 "C18": dict(engine=E2, category="model_checking", technique="explicit-state BFS over all reachable states of the real skip list (enumerated node heights), reference map comparison on every transition", ref="DESIGN.md 4, 5/C18",
  text="All reachable states (not a depth bound) of the skip list for 3 keys x 2 values x heights 1..3, 4 keys x heights 1..2 (1..3 under ord.Int), 2 keys x heights 1..8 (thorough: 4 keys x heights 1..4, 5 keys x heights 1..3, 3 keys x heights 1..6) under ord.Int, a reversed ord.From and ord.String; a state is the complete object graph of the list (every field of the list and of every node, by reflection, pointers normalised); every Put/Get/Remove from every state is executed on a fresh real list: return values equal a map's, printed keys strictly ascending, forward pointers only to larger live keys. Next to the exploration, one free-running -race execution of four goroutines working on lists of their own against plain maps (state shared between unshared lists is invisible to a sequential exploration).",
  note="Node heights are chosen by the driver through a seam file added to the staged copy of the package (replaces the list's rand.Source only). Long random histories are not sampled. The race pass is a single execution, not an exploration; it can only add a violation, never remove one."),
 "C19": dict(engine=E2, category="model_checking", technique="bounded-exhaustive script enumeration (tree of persistent values, no de-duplication) on both real implementations against one reference", ref="DESIGN.md 4, 5/C19",
  text="From New(xs) for all xs over {1,2,3} of length <=3, every script of Cons(1|2|3)/Tail up to 6 (8) operations on the linked-list and on the slice trait: Length, IsEmpty, Head/Tail walk and Fold (non-commutative a*10+b from empty 7) equal the reference list; arguments and all earlier siblings are re-observed after later operations (persistence); starts from argument slices with spare capacity; sequences of 1025..4097 elements folded with an operation that is slow on one element.",
  note="Element values 1..3 stand for all values (parametricity)."),
 "C20": dict(engine=E2, category="exploration", technique="exhaustive enumeration over arities 2..20 x argument sets x function-level interleavings of two overlapping invocations x build/invoke/panic histories over pairs of compositions", ref="DESIGN.md 5/C20",
  text="Every exported PipeN found in the staged source (N=2..20): call trace = 1..N exactly once per invocation, value equals the sequential composition of pairwise non-commuting affine maps, nothing applied at composition time, nil interface values travel through an any-typed pipeline, re-entrant invocation from every position, two overlapping invocations under all C(2N,N) function-level interleavings (N<=5) / all park points (N>5), and histories over two compositions: X built, Y built (every arity), X/Y/X invoked; function k of X panics (every k, recovered) and X and every other composition are invoked again.",
  note="Data races inside PipeN itself are not modelled (invocations are gated)."),
}

PENDING = "check not built yet in this session (planned: DESIGN.md section 5)"

def main():
    props = [json.loads(l)["id"] for l in open("/verif/properties.jsonl")]
    checks = []
    for pid in props:
        c = CHECKS.get(pid)
        if not c:
            continue
        checks.append({
            "property_id": pid,
            "quick_cmd": "./check %s quick" % pid,
            "thorough_cmd": "./check %s thorough" % pid,
            "evidence_file": "/verif/evidence/%s.json" % pid,
            "replay_cmd_template": "./check replay {path}",
            "engine": c["engine"],
            "level_claimed": {"category": c["category"], "text": c["text"], "design_ref": c["ref"]},
            "level_note": c["note"],
            "technique": c["technique"],
        })
    m = {
        "version": 1,
        "setup_cmd": "./check setup",
        "hooks": {
            "guard": "verif",
            "enable": "no hooks are compiled into /repo: E1 checks translate the current pipe sources with /verif/gosim at check time; E2 checks build against /repo through go.mod replace directives (internal/* is staged into a scratch module)",
            "baseline_off_cmd": "for m in duct hseq optics pipe pure trait; do (cd /repo/$m && go test -mod=mod -vet=off -count=1 -timeout 25m ./...) || exit 1; done",
            "source_commits": [],
            "add_only": True,
        },
        "engines": [
            {"name": E1, "path": "/verif/gosim /verif/rt /verif/explore /verif/e1lib /verif/e1 /verif/harness",
             "serves_properties": [p for p in props if p in CHECKS and CHECKS[p]["engine"] == E1],
             "kind_free_text": "source-to-source translation of the current pipe and pipe/fork sources onto a simulated Go runtime; stateless DFS over all schedules with visited-state caching, optional preemption bound, virtual clock"},
            {"name": E2, "path": "/verif/e2",
             "serves_properties": [p for p in props if p in CHECKS and CHECKS[p]["engine"] == E2],
             "kind_free_text": "bounded-exhaustive enumeration / explicit-state BFS over the real sequential APIs against reference models"},
        ],
        "checks": checks,
        "notes": "All checks honour VERIF_REPO (default /repo) and rebuild from that tree on every run. known_findings.json lists genuine defects (all fixed by fix: commits so far).",
        "not_applicable": [{"property_id": p, "reason": PENDING} for p in props if p not in CHECKS],
    }
    with open("/verif/MANIFEST.json", "w") as f:
        json.dump(m, f, indent=1)
        f.write("\n")

if __name__ == "__main__":
    main()
